//! C10 — SSA transformation yields valid SSA that preserves behaviour.
//!
//! Domain: IL functions from `fv::gen_il::gen_fn` (1-9 blocks, all six operation kinds, widths
//! 1..128, loops through the entry, self-loops, blocks unreachable from the entry that may feed
//! live blocks, entry sometimes moved) plus *planted* scalars that no generated operation touches:
//! a scalar assigned in 2-3 blocks and read only by the guards of one block's out-edges, and a
//! scalar assigned in 2-3 blocks and read only by one Store / Load / Branch operand or one
//! intrinsic's declared read set; x 8 initial states.
//!
//! Oracle (nothing below calls falcon's analyses; `il::*` getters are used as plain data):
//!  * structure — same block indices, per block the same instruction indices / addresses /
//!    operations once SSA indices are erased (own recursive eraser), same edges and guards, same
//!    entry;
//!  * single assignment — every (name, version) is written by exactly one instruction operand or
//!    phi output in the whole function; every write in the reachable part carries a version;
//!  * reaching versions — forward data-flow "set of versions of each name that can be current
//!    here" over the SSA function (entry seeds `unversioned`; a phi output / instruction write
//!    replaces the set); at every instruction operand, every guard and every phi input per
//!    reachable predecessor edge the set must be exactly {the version named there}; a phi has an
//!    input for every reachable predecessor, none for a non-predecessor, the (unversioned) entry
//!    input exactly when its block is the entry;
//!  * behaviour — `fv::refil::Machine` on the original and on the SSA function in lock-step (the
//!    SSA function is given to the same reference interpreter with every scalar renamed to
//!    `name#version`; phi nodes are applied by this file, in parallel, selected by the edge just
//!    taken, the entry input at the start): same location after every step, same effect (value
//!    assigned / loaded, store address and value, branch target), same values for every scalar
//!    an instruction or a guard reads, same fault at the same place.
//!
//! Modelling choices that keep both sides comparable: an intrinsic writes its declared scalars
//! with `havoc_value(seed, step, NAME, bits)` (keyed by the unversioned name, so both sides get
//! the same value) and nothing else; a `Branch` is compared (target) and then treated as a call
//! that returns having changed nothing.  Both are producible by a real callee / instruction, so
//! a divergence found under them is a real one.

use falcon::il;
use falcon::transformation::ssa_transformation;
use fv::bv::Bv;
use fv::engine::{self, guard, Failure, Obs, Spec, Tier};
use fv::gen_il::{gen_expr, gen_fn, gen_state, FnSpec, IlParams, OpSpec, Pool};
use fv::refil::{havoc_value, EdgeView, Effect, Fault, FnView, InstrView, Loc, Machine, RefState};
use fv::tape::{from_tape, Tape};
use serde::{Deserialize, Serialize};
use std::collections::{BTreeMap, BTreeSet};

const N_STATES: usize = 8;
const MAX_STEPS: usize = 160;

#[derive(Clone, Debug, Serialize, Deserialize)]
struct Case {
    spec: FnSpec,
    pool: Pool,
    states: Vec<RefState>,
    havoc_seed: u64,
}

// ------------------------------------------------------------------------------------------
// expression / operation helpers (own traversals: falcon's `scalars()` / `scalars_mut()` are
// what the transformation itself uses)
// ------------------------------------------------------------------------------------------

fn map_expr(e: &il::Expression, f: &dyn Fn(&il::Scalar) -> il::Scalar) -> il::Expression {
    use il::Expression as E;
    let b = |x: &il::Expression| Box::new(map_expr(x, f));
    match e {
        E::Scalar(s) => E::Scalar(f(s)),
        E::Constant(c) => E::Constant(c.clone()),
        E::Add(l, r) => E::Add(b(l), b(r)),
        E::Sub(l, r) => E::Sub(b(l), b(r)),
        E::Mul(l, r) => E::Mul(b(l), b(r)),
        E::Divu(l, r) => E::Divu(b(l), b(r)),
        E::Modu(l, r) => E::Modu(b(l), b(r)),
        E::Divs(l, r) => E::Divs(b(l), b(r)),
        E::Mods(l, r) => E::Mods(b(l), b(r)),
        E::And(l, r) => E::And(b(l), b(r)),
        E::Or(l, r) => E::Or(b(l), b(r)),
        E::Xor(l, r) => E::Xor(b(l), b(r)),
        E::Shl(l, r) => E::Shl(b(l), b(r)),
        E::Shr(l, r) => E::Shr(b(l), b(r)),
        E::AShr(l, r) => E::AShr(b(l), b(r)),
        E::Cmpeq(l, r) => E::Cmpeq(b(l), b(r)),
        E::Cmpneq(l, r) => E::Cmpneq(b(l), b(r)),
        E::Cmplts(l, r) => E::Cmplts(b(l), b(r)),
        E::Cmpltu(l, r) => E::Cmpltu(b(l), b(r)),
        E::Zext(n, x) => E::Zext(*n, b(x)),
        E::Sext(n, x) => E::Sext(*n, b(x)),
        E::Trun(n, x) => E::Trun(*n, b(x)),
        E::Ite(c, t, x) => E::Ite(b(c), b(t), b(x)),
    }
}

fn expr_scalars<'a>(e: &'a il::Expression, out: &mut Vec<&'a il::Scalar>) {
    use il::Expression as E;
    match e {
        E::Scalar(s) => out.push(s),
        E::Constant(_) => {}
        E::Add(l, r) | E::Sub(l, r) | E::Mul(l, r) | E::Divu(l, r) | E::Modu(l, r) | E::Divs(l, r) | E::Mods(l, r)
        | E::And(l, r) | E::Or(l, r) | E::Xor(l, r) | E::Shl(l, r) | E::Shr(l, r) | E::AShr(l, r) | E::Cmpeq(l, r)
        | E::Cmpneq(l, r) | E::Cmplts(l, r) | E::Cmpltu(l, r) => {
            expr_scalars(l, out);
            expr_scalars(r, out);
        }
        E::Zext(_, x) | E::Sext(_, x) | E::Trun(_, x) => expr_scalars(x, out),
        E::Ite(c, t, x) => {
            expr_scalars(c, out);
            expr_scalars(t, out);
            expr_scalars(x, out);
        }
    }
}

fn map_op(op: &il::Operation, f: &dyn Fn(&il::Scalar) -> il::Scalar) -> il::Operation {
    use il::Operation as O;
    match op {
        O::Assign { dst, src } => O::Assign { dst: f(dst), src: map_expr(src, f) },
        O::Store { index, src } => O::Store { index: map_expr(index, f), src: map_expr(src, f) },
        O::Load { dst, index } => O::Load { dst: f(dst), index: map_expr(index, f) },
        O::Branch { target } => O::Branch { target: map_expr(target, f) },
        O::Intrinsic { intrinsic } => {
            let m = |v: Option<&[il::Expression]>| v.map(|xs| xs.iter().map(|x| map_expr(x, f)).collect::<Vec<_>>());
            O::Intrinsic {
                intrinsic: il::Intrinsic::new(
                    intrinsic.mnemonic(),
                    intrinsic.instruction_str(),
                    intrinsic.arguments().iter().map(|x| map_expr(x, f)).collect(),
                    m(intrinsic.written_expressions()),
                    m(intrinsic.read_expressions()),
                    intrinsic.bytes().to_vec(),
                ),
            }
        }
        O::Nop { placeholder } => O::Nop { placeholder: placeholder.as_ref().map(|p| Box::new(map_op(p, f))) },
    }
}

fn strip(s: &il::Scalar) -> il::Scalar {
    il::Scalar::new(s.name(), s.bits())
}

/// `name#version` for versioned scalars: the SSA function becomes an ordinary function over
/// distinct names which the shared reference interpreter can run.
fn mangle(s: &il::Scalar) -> il::Scalar {
    match s.ssa() {
        Some(v) => il::Scalar::new(format!("{}#{}", s.name(), v), s.bits()),
        None => il::Scalar::new(s.name(), s.bits()),
    }
}

fn base_name(mangled: &str) -> &str {
    mangled.split('#').next().unwrap_or(mangled)
}

fn op_kind(op: &il::Operation) -> &'static str {
    match op {
        il::Operation::Assign { .. } => "assign",
        il::Operation::Store { .. } => "store",
        il::Operation::Load { .. } => "load",
        il::Operation::Branch { .. } => "branch",
        il::Operation::Intrinsic { .. } => "intrinsic",
        il::Operation::Nop { .. } => "nop",
    }
}

/// scalars an operation reads, in a fixed syntactic order (intrinsic: declared read set only;
/// `arguments` are intrinsic-dependent and the property says nothing about them)
fn op_reads(op: &il::Operation) -> Vec<&il::Scalar> {
    let mut v = Vec::new();
    match op {
        il::Operation::Assign { src, .. } => expr_scalars(src, &mut v),
        il::Operation::Store { index, src } => {
            expr_scalars(index, &mut v);
            expr_scalars(src, &mut v);
        }
        il::Operation::Load { index, .. } => expr_scalars(index, &mut v),
        il::Operation::Branch { target } => expr_scalars(target, &mut v),
        il::Operation::Intrinsic { intrinsic } => {
            if let Some(xs) = intrinsic.read_expressions() {
                for x in xs {
                    expr_scalars(x, &mut v);
                }
            }
        }
        il::Operation::Nop { .. } => {}
    }
    v
}

fn op_writes(op: &il::Operation) -> Vec<&il::Scalar> {
    let mut v = Vec::new();
    match op {
        il::Operation::Assign { dst, .. } | il::Operation::Load { dst, .. } => v.push(dst),
        il::Operation::Intrinsic { intrinsic } => {
            if let Some(xs) = intrinsic.written_expressions() {
                for x in xs {
                    expr_scalars(x, &mut v);
                }
            }
        }
        _ => {}
    }
    v
}

// ------------------------------------------------------------------------------------------
// generation
// ------------------------------------------------------------------------------------------

fn konst(v: u128, bits: usize) -> il::Expression {
    il::Expression::constant(il::Constant::new_big(num_bigint::BigUint::from(v), bits))
}

fn escalar(name: &str, bits: usize) -> il::Expression {
    il::Expression::Scalar(il::Scalar::new(name, bits))
}

/// exclusive and exhaustive guards over one fixed selector scalar
fn guards_over(name: &str, bits: usize, k: usize) -> Vec<Option<il::Expression>> {
    use il::Expression as E;
    let b = |e: il::Expression| Box::new(e);
    let g = escalar(name, bits);
    match k {
        0 => vec![],
        1 => vec![Some(E::Cmpeq(b(g.clone()), b(g)))], // always true, still a use
        2 if bits == 1 => vec![Some(g.clone()), Some(E::Cmpeq(b(g), b(konst(0, 1))))],
        _ => {
            let e = E::And(b(g), b(konst(3, bits)));
            let mut v = Vec::new();
            for i in 0..k - 1 {
                v.push(Some(E::Cmpeq(b(e.clone()), b(konst(i as u128, bits)))));
            }
            v.push(Some(E::Cmpeq(b(E::Cmpltu(b(e), b(konst(k as u128 - 1, bits)))), b(konst(0, 1)))));
            v
        }
    }
}

fn preds_of(spec: &FnSpec, b: usize) -> Vec<usize> {
    spec.edges.iter().filter(|e| e.1 == b).map(|e| e.0).collect()
}

/// choose 2-3 blocks that assign the planted scalar, biased towards the predecessors of `at`
fn pick_def_blocks(t: &mut Tape, spec: &FnSpec, at: usize) -> Vec<usize> {
    let n = spec.blocks.len();
    // a definition inside `at` itself would hide every other one from a use at its end
    let preds: Vec<usize> = preds_of(spec, at).into_iter().filter(|b| *b != at).collect();
    let want = t.range(2, 3).min(n);
    let mut v: Vec<usize> = Vec::new();
    for _ in 0..8 {
        if v.len() >= want {
            break;
        }
        let b = if !preds.is_empty() && t.chance(3, 4) { *t.pick(&preds) } else { t.below(n) };
        if !v.contains(&b) {
            v.push(b);
        }
    }
    v
}

/// where the planted use goes: mostly a join block
fn pick_use_block(t: &mut Tape, spec: &FnSpec) -> usize {
    let n = spec.blocks.len();
    let joins: Vec<usize> = (0..n).filter(|b| preds_of(spec, *b).iter().filter(|p| *p != b).count() >= 2).collect();
    if !joins.is_empty() && t.chance(2, 3) {
        *t.pick(&joins)
    } else {
        t.below(n)
    }
}

fn insert_op(t: &mut Tape, spec: &mut FnSpec, block: usize, op: il::Operation, next_addr: &mut u64, at_end: bool) {
    let len = spec.blocks[block].len();
    let pos = if at_end { len } else { t.below(len + 1) };
    spec.blocks[block].insert(pos, OpSpec { op, address: Some(*next_addr) });
    *next_addr += 4;
}

fn decode(t: &mut Tape) -> Case {
    let mut p = IlParams::default();
    p.max_blocks = *t.pick(&[4usize, 3, 6, 9]);
    p.max_ops = *t.pick(&[3usize, 2, 4]);
    p.max_scalars = *t.pick(&[3usize, 4, 6]);
    p.max_expr_depth = *t.pick(&[1usize, 2, 3]);
    if t.chance(1, 6) {
        p.widths.push(128);
    }
    p.branch = t.chance(1, 2);
    p.intrinsic = t.chance(1, 2);
    p.unreachable = t.chance(1, 2);
    p.entry_no_preds = t.chance(1, 3);
    p.raw_divisor_permille = 10;
    p.raw_address_permille = 10;
    // "any IL function": a few blocks whose guards are not exclusive / exhaustive (execution then
    // stops with the same fault on both sides)
    p.broken_guards_permille = 30;
    let big_endian = t.chance(1, 2);
    p.index_gaps_permille = 200;
    p.nop_placeholders = true;
    p.function_index = true;
    let g = gen_fn(t, &p);
    let mut spec = g.spec;
    let mut pool = g.pool;
    let n = spec.blocks.len();
    let mut next_addr = 0x4000u64 + 4 * spec.blocks.iter().map(|b| b.len() as u64).sum::<u64>();

    // --- plant A: a scalar read only by the guards of one block
    if t.chance(3, 5) {
        let wide = t.chance(1, 3);
        let name = "g0";
        let at = pick_use_block(t, &spec);
        // the block needs out-edges to carry guards
        let mut outs: Vec<usize> = spec.edges.iter().filter(|e| e.0 == at).map(|e| e.1).collect();
        if outs.len() < 2 && t.chance(3, 4) {
            for _ in 0..4 {
                let tgt = t.below(n);
                if !outs.contains(&tgt) && !(p.entry_no_preds && tgt == 0) {
                    spec.edges.push((at, tgt, None));
                    outs.push(tgt);
                    break;
                }
            }
        }
        if !outs.is_empty() {
            // a 1-bit selector can only tell two edges apart
            let bits = if wide || outs.len() > 2 { 8 } else { 1 };
            let defs = pick_def_blocks(t, &spec, at);
            let guards = guards_over(name, bits, outs.len());
            let mut gi = guards.into_iter();
            for e in spec.edges.iter_mut() {
                if e.0 == at {
                    e.2 = gi.next().unwrap();
                }
            }
            for (k, d) in defs.iter().enumerate() {
                let src = match t.below(8) {
                    0 | 1 => gen_expr(t, &pool, &p, bits, 1), // pool does not contain g0 yet
                    2 => il::Expression::Xor(Box::new(escalar(name, bits)), Box::new(konst(1, bits))), // reads itself: no longer guard-only
                    _ => konst(k as u128 + t.below(2) as u128, bits),
                };
                insert_op(t, &mut spec, *d, il::Operation::Assign { dst: il::Scalar::new(name, bits), src }, &mut next_addr, false);
            }
            pool.scalars.push((name.to_string(), bits));
        }
    }

    // --- plant B: a scalar read only by one Store / Load / Branch operand or intrinsic read set
    if t.chance(2, 5) {
        let name = "p0";
        let at = pick_use_block(t, &spec);
        let kind = t.below(6);
        let bits = match kind {
            0 => *t.pick(&[8usize, 16, 32, 64]), // store source
            5 => *t.pick(&[1usize, 8, 32]),      // intrinsic read
            _ => p.addr_bits,
        };
        let defs = pick_def_blocks(t, &spec, at);
        for (k, d) in defs.iter().enumerate() {
            let src = if bits == p.addr_bits && kind != 3 {
                konst((p.scratch_base + 8 * k as u64 + t.below(8) as u64) as u128, bits)
            } else if t.chance(1, 3) {
                gen_expr(t, &pool, &p, bits, 1)
            } else {
                konst(0x40 + k as u128, bits).clone()
            };
            let src = if bits == 1 { konst(k as u128 & 1, 1) } else { src };
            insert_op(t, &mut spec, *d, il::Operation::Assign { dst: il::Scalar::new(name, bits), src }, &mut next_addr, false);
        }
        let pv = escalar(name, bits);
        let other: Vec<il::Scalar> = pool.all().into_iter().filter(|s| s.bits() % 8 == 0).collect();
        let use_op = match kind {
            0 => il::Operation::Store { index: konst((p.scratch_base + t.below(16) as u64) as u128, p.addr_bits), src: pv },
            1 => il::Operation::Store { index: pv, src: konst(t.biased(16), 16) },
            2 if !other.is_empty() => il::Operation::Load { dst: t.pick(&other).clone(), index: pv },
            2 | 3 | 4 => il::Operation::Branch { target: pv },
            _ => il::Operation::Intrinsic {
                intrinsic: il::Intrinsic::new(
                    "intr",
                    "intr planted",
                    Vec::new(),
                    if t.chance(1, 2) { Some(Vec::new()) } else { None },
                    Some(vec![pv]),
                    vec![0xde, 0xad],
                ),
            },
        };
        // the use goes to the end of its block so that a definition planted in the same block
        // does not always hide the join
        let at_end = t.chance(1, 2);
        insert_op(t, &mut spec, at, use_op, &mut next_addr, at_end);
        pool.scalars.push((name.to_string(), bits));
    }

    // --- sometimes enter somewhere else (block 0 may become unreachable)
    if n > 1 && t.chance(1, 10) {
        spec.entry = Some(t.below(n));
    }

    let havoc_seed = t.u64();
    let states = (0..N_STATES).map(|_| gen_state(t, &pool, &p, big_endian, 0)).collect();
    Case { spec, pool, states, havoc_seed }
}

// ------------------------------------------------------------------------------------------
// analysis of the ORIGINAL function (classes, non-trivial rule, signature qualifiers)
// ------------------------------------------------------------------------------------------

#[derive(Clone, Copy, Debug, PartialEq, Eq, PartialOrd, Ord)]
enum Def {
    Initial,
    At(usize, usize),
}

struct OrigInfo {
    reach: BTreeSet<usize>,
    /// names some instruction reads before its block writes them (over ALL blocks)
    upward_exposed: BTreeSet<String>,
    /// names read by at least one instruction
    read_by_instruction: BTreeSet<String>,
    /// (use kind, name, number of reaching definitions, loop carried)
    multi_uses: Vec<(&'static str, String, usize, bool)>,
    joins: usize,
    unreachable_blocks: usize,
    unreachable_pred: bool,
}

fn reachable(view: &FnView) -> BTreeSet<usize> {
    let mut seen = BTreeSet::new();
    let mut stack: Vec<usize> = view.entry.into_iter().collect();
    while let Some(b) = stack.pop() {
        if seen.insert(b) {
            for e in view.out_edges(b) {
                stack.push(e.tail);
            }
        }
    }
    seen
}

fn analyse_original(view: &FnView) -> OrigInfo {
    let reach = reachable(view);
    let entry = view.entry.unwrap();
    let mut upward_exposed = BTreeSet::new();
    let mut read_by_instruction = BTreeSet::new();
    for is in view.blocks.values() {
        let mut killed: BTreeSet<&str> = BTreeSet::new();
        for i in is {
            for s in op_reads(&i.op) {
                read_by_instruction.insert(s.name().to_string());
                if !killed.contains(s.name()) {
                    upward_exposed.insert(s.name().to_string());
                }
            }
            for s in op_writes(&i.op) {
                killed.insert(s.name());
            }
        }
    }
    // reaching definitions, by name
    type M = BTreeMap<String, BTreeSet<Def>>;
    let mut names: BTreeSet<String> = BTreeSet::new();
    for is in view.blocks.values() {
        for i in is {
            for s in op_reads(&i.op).into_iter().chain(op_writes(&i.op)) {
                names.insert(s.name().to_string());
            }
        }
    }
    for e in &view.edges {
        if let Some(c) = &e.cond {
            let mut v = Vec::new();
            expr_scalars(c, &mut v);
            for s in v {
                names.insert(s.name().to_string());
            }
        }
    }
    let block_in = |out: &BTreeMap<usize, M>, b: usize| -> M {
        let mut cur: M = BTreeMap::new();
        if b == entry {
            for n in &names {
                cur.entry(n.clone()).or_default().insert(Def::Initial);
            }
        }
        for e in view.in_edges(b) {
            if reach.contains(&e.head) {
                if let Some(o) = out.get(&e.head) {
                    for (n, s) in o {
                        cur.entry(n.clone()).or_default().extend(s.iter().copied());
                    }
                }
            }
        }
        cur
    };
    let mut out: BTreeMap<usize, M> = BTreeMap::new();
    loop {
        let mut changed = false;
        for b in &reach {
            let mut cur = block_in(&out, *b);
            for (pos, i) in view.blocks[b].iter().enumerate() {
                for s in op_writes(&i.op) {
                    cur.insert(s.name().to_string(), [Def::At(*b, pos)].into_iter().collect());
                }
            }
            if out.get(b) != Some(&cur) {
                out.insert(*b, cur);
                changed = true;
            }
        }
        if !changed {
            break;
        }
    }
    // blocks reachable by >= 1 edge from each block
    let mut after: BTreeMap<usize, BTreeSet<usize>> = BTreeMap::new();
    for b in &reach {
        let mut seen = BTreeSet::new();
        let mut stack: Vec<usize> = view.out_edges(*b).iter().map(|e| e.tail).collect();
        while let Some(x) = stack.pop() {
            if seen.insert(x) {
                stack.extend(view.out_edges(x).iter().map(|e| e.tail));
            }
        }
        after.insert(*b, seen);
    }
    let mut multi_uses = Vec::new();
    let mut note = |kind: &'static str, s: &il::Scalar, cur: &M, b: usize| {
        if let Some(d) = cur.get(s.name()) {
            if d.len() >= 2 {
                let carried = d.iter().any(|x| matches!(x, Def::At(db, _) if after[&b].contains(db)));
                multi_uses.push((kind, s.name().to_string(), d.len(), carried));
            }
        }
    };
    for b in &reach {
        let mut cur = block_in(&out, *b);
        for (pos, i) in view.blocks[b].iter().enumerate() {
            for s in op_reads(&i.op) {
                note(op_kind(&i.op), s, &cur, *b);
            }
            for s in op_writes(&i.op) {
                cur.insert(s.name().to_string(), [Def::At(*b, pos)].into_iter().collect());
            }
        }
        for e in view.out_edges(*b) {
            if let Some(c) = &e.cond {
                let mut v = Vec::new();
                expr_scalars(c, &mut v);
                for s in v {
                    note("guard", s, &cur, *b);
                }
            }
        }
    }
    let joins = reach
        .iter()
        .filter(|b| {
            let p = view.in_edges(**b).iter().filter(|e| reach.contains(&e.head)).count();
            p >= 2 || (**b == entry && p >= 1)
        })
        .count();
    let unreachable_blocks = view.blocks.keys().filter(|b| !reach.contains(b)).count();
    let unreachable_pred = view.edges.iter().any(|e| !reach.contains(&e.head) && reach.contains(&e.tail));
    OrigInfo { reach, upward_exposed, read_by_instruction, multi_uses, joins, unreachable_blocks, unreachable_pred }
}

// ------------------------------------------------------------------------------------------
// view of the SSA function
// ------------------------------------------------------------------------------------------

#[derive(Clone, Debug)]
struct PhiView {
    out: il::Scalar,
    /// input per block index (every block index of the function is queried)
    incoming: BTreeMap<usize, il::Scalar>,
    entry: Option<il::Scalar>,
}

struct SsaView {
    view: FnView,
    phis: BTreeMap<usize, Vec<PhiView>>,
}

fn ssa_view(f: &il::Function) -> SsaView {
    let view = FnView::of(f);
    let indices: Vec<usize> = view.blocks.keys().copied().collect();
    let mut phis = BTreeMap::new();
    for b in f.control_flow_graph().blocks() {
        let v: Vec<PhiView> = b
            .phi_nodes()
            .iter()
            .map(|p| PhiView {
                out: p.out().clone(),
                incoming: indices.iter().filter_map(|i| p.incoming_scalar(*i).map(|s| (*i, s.clone()))).collect(),
                entry: p.entry_scalar().cloned(),
            })
            .collect();
        phis.insert(b.index(), v);
    }
    SsaView { view, phis }
}

fn render_ssa(s: &SsaView) -> String {
    let mut o = format!("ssa entry={:?}\n", s.view.entry);
    for (b, is) in &s.view.blocks {
        o.push_str(&format!(" block {}:\n", b));
        for p in s.phis.get(b).map(|v| v.as_slice()).unwrap_or(&[]) {
            o.push_str(&format!("   {} = phi", p.out));
            for (k, v) in &p.incoming {
                o.push_str(&format!(" [{}, {}]", v, k));
            }
            if let Some(e) = &p.entry {
                o.push_str(&format!(" [{}, entry]", e));
            }
            o.push('\n');
        }
        for i in is {
            o.push_str(&format!("   {:02} {}\n", i.index, i.op));
        }
    }
    for e in &s.view.edges {
        match &e.cond {
            Some(c) => o.push_str(&format!(" edge {}->{} if {}\n", e.head, e.tail, c)),
            None => o.push_str(&format!(" edge {}->{}\n", e.head, e.tail)),
        }
    }
    o
}

// ------------------------------------------------------------------------------------------
// static oracle
// ------------------------------------------------------------------------------------------

fn check_structure(orig: &FnView, ssa: &SsaView) -> Result<(), Failure> {
    let s = &ssa.view;
    if s.entry != orig.entry {
        fv::fail!("C10|structure|entry", "entry {:?} became {:?}", orig.entry, s.entry);
    }
    let ob: Vec<usize> = orig.blocks.keys().copied().collect();
    let sb: Vec<usize> = s.blocks.keys().copied().collect();
    if ob != sb {
        fv::fail!("C10|structure|blocks", "block indices {:?} became {:?}", ob, sb);
    }
    for (b, ois) in &orig.blocks {
        let sis = &s.blocks[b];
        if ois.len() != sis.len() {
            fv::fail!("C10|structure|instructions", "block {} had {} instructions, the SSA form has {}", b, ois.len(), sis.len());
        }
        for (pos, (oi, si)) in ois.iter().zip(sis).enumerate() {
            if oi.index != si.index || oi.address != si.address {
                fv::fail!(
                    "C10|structure|instructions",
                    "block {} position {}: index/address ({}, {:x?}) became ({}, {:x?})",
                    b, pos, oi.index, oi.address, si.index, si.address
                );
            }
            let erased = map_op(&si.op, &strip);
            if erased != oi.op {
                fv::fail!(
                    "C10|structure|operation-changed",
                    "block {} position {}: `{}` became `{}`, which is not the same operation modulo SSA indices",
                    b, pos, oi.op, si.op
                );
            }
        }
    }
    let oe: Vec<(usize, usize)> = orig.edges.iter().map(|e| (e.head, e.tail)).collect();
    let se: Vec<(usize, usize)> = s.edges.iter().map(|e| (e.head, e.tail)).collect();
    if oe != se {
        fv::fail!("C10|structure|edges", "edges {:?} became {:?}", oe, se);
    }
    for (o, e) in orig.edges.iter().zip(&s.edges) {
        let erased = e.cond.as_ref().map(|c| map_expr(c, &strip));
        if erased != o.cond {
            fv::fail!(
                "C10|structure|guard-changed",
                "guard of edge {}->{}: {:?} became {:?}",
                o.head, o.tail, o.cond.as_ref().map(|c| c.to_string()), e.cond.as_ref().map(|c| c.to_string())
            );
        }
    }
    Ok(())
}

type VSet = BTreeSet<Option<usize>>;
type VMap = BTreeMap<String, VSet>;

fn vset_str(name: &str, s: Option<&VSet>) -> String {
    match s {
        None => "{}".to_string(),
        Some(s) => {
            let v: Vec<String> = s
                .iter()
                .map(|x| match x {
                    None => format!("{} (unversioned, value on entry)", name),
                    Some(v) => format!("{}.{}", name, v),
                })
                .collect();
            format!("{{{}}}", v.join(", "))
        }
    }
}

fn use_sig(kind: &str, name: &str, info: &OrigInfo) -> String {
    // qualifier: does any instruction of the original read this scalar before its block writes
    // it?  (seen from outside: the scalar is live into a block only through guards)
    if kind == "guard" && !info.upward_exposed.contains(name) {
        "C10|static|use|guard|scalar-live-into-blocks-only-through-guards".to_string()
    } else {
        format!("C10|static|use|{}", kind)
    }
}

fn check_static(ssa: &SsaView, info: &OrigInfo) -> Result<(), Failure> {
    let view = &ssa.view;
    let entry = view.entry.unwrap();
    let reach = &info.reach;
    let no_phis: Vec<PhiView> = Vec::new();
    let phis_of = |b: usize| ssa.phis.get(&b).unwrap_or(&no_phis);

    // ---- single assignment (whole function)
    let mut defs: BTreeMap<(String, usize), Vec<String>> = BTreeMap::new();
    for (b, is) in &view.blocks {
        for (k, p) in phis_of(*b).iter().enumerate() {
            match p.out.ssa() {
                Some(v) => defs.entry((p.out.name().to_string(), v)).or_default().push(format!("phi {} of block {}", k, b)),
                None if reach.contains(b) => {
                    fv::fail!("C10|static|def|unversioned-phi-output", "phi node {} of reachable block {} writes the unversioned scalar {}", k, b, p.out)
                }
                None => {}
            }
        }
        for (pos, i) in is.iter().enumerate() {
            for s in op_writes(&i.op) {
                match s.ssa() {
                    Some(v) => defs.entry((s.name().to_string(), v)).or_default().push(format!("block {} position {}", b, pos)),
                    None if reach.contains(b) => {
                        fv::fail!(
                            "C10|static|def|unversioned-write",
                            "block {} position {} (`{}`) is reachable from the entry and writes the unversioned scalar {}",
                            b, pos, i.op, s
                        )
                    }
                    None => {}
                }
            }
        }
    }
    for ((n, v), places) in &defs {
        // an intrinsic that lists the same scalar twice writes it twice in ONE place; only
        // different places count
        let distinct: BTreeSet<&String> = places.iter().collect();
        if distinct.len() > 1 {
            fv::fail!("C10|static|def|version-assigned-twice", "{}.{} is assigned in {} places: {:?}", n, v, distinct.len(), distinct);
        }
    }

    // ---- phi shape (reachable blocks)
    for b in reach {
        let preds: BTreeSet<usize> = view.in_edges(*b).iter().map(|e| e.head).collect();
        for (k, p) in phis_of(*b).iter().enumerate() {
            for (from, s) in &p.incoming {
                if !preds.contains(from) {
                    fv::fail!("C10|static|phi|input-for-non-predecessor", "phi {} of block {} ({}) has an input {} for block {}, which is not a predecessor", k, b, p.out, s, from);
                }
                if s.name() != p.out.name() || s.bits() != p.out.bits() {
                    fv::fail!("C10|static|phi|input-other-scalar", "phi {} of block {} writes {} but its input from block {} is {}", k, b, p.out, from, s);
                }
            }
            for from in &preds {
                if reach.contains(from) && !p.incoming.contains_key(from) {
                    fv::fail!("C10|static|phi|missing-input-for-predecessor", "phi {} of block {} ({}) has no input for the predecessor {}", k, b, p.out, from);
                }
            }
            match (&p.entry, *b == entry) {
                (Some(s), true) => {
                    if s.ssa().is_some() || s.name() != p.out.name() || s.bits() != p.out.bits() {
                        fv::fail!("C10|static|phi|entry-input-wrong", "phi {} of the entry block writes {}; its entry input is {} instead of the unversioned scalar", k, p.out, s);
                    }
                }
                (None, true) => fv::fail!("C10|static|phi|missing-entry-input", "phi {} of the entry block {} ({}) has no input for entering the function", k, b, p.out),
                (Some(s), false) => fv::fail!("C10|static|phi|entry-input-on-non-entry-block", "phi {} of block {} ({}) has an entry input {} although block {} is the entry", k, b, p.out, s, entry),
                (None, false) => {}
            }
        }
    }

    // ---- reaching versions
    let mut names: BTreeSet<String> = BTreeSet::new();
    for (b, is) in &view.blocks {
        for p in phis_of(*b) {
            names.insert(p.out.name().to_string());
        }
        for i in is {
            for s in op_reads(&i.op).into_iter().chain(op_writes(&i.op)) {
                names.insert(s.name().to_string());
            }
        }
    }
    for e in &view.edges {
        if let Some(c) = &e.cond {
            let mut v = Vec::new();
            expr_scalars(c, &mut v);
            for s in v {
                names.insert(s.name().to_string());
            }
        }
    }
    let block_in = |out: &BTreeMap<usize, VMap>, b: usize| -> VMap {
        let mut cur: VMap = BTreeMap::new();
        if b == entry {
            for n in &names {
                cur.entry(n.clone()).or_default().insert(None);
            }
        }
        for e in view.in_edges(b) {
            if reach.contains(&e.head) {
                if let Some(o) = out.get(&e.head) {
                    for (n, s) in o {
                        cur.entry(n.clone()).or_default().extend(s.iter().copied());
                    }
                }
            }
        }
        cur
    };
    let single = |v: Option<usize>| -> VSet { [v].into_iter().collect() };
    let mut out: BTreeMap<usize, VMap> = BTreeMap::new();
    let mut rounds = 0;
    loop {
        let mut changed = false;
        for b in reach {
            let mut cur = block_in(&out, *b);
            for p in phis_of(*b) {
                cur.insert(p.out.name().to_string(), single(p.out.ssa()));
            }
            for i in &view.blocks[b] {
                for s in op_writes(&i.op) {
                    cur.insert(s.name().to_string(), single(s.ssa()));
                }
            }
            if out.get(b) != Some(&cur) {
                out.insert(*b, cur);
                changed = true;
            }
        }
        if !changed {
            break;
        }
        rounds += 1;
        if rounds > 10_000 {
            fv::fail!("C10|harness|dataflow-diverges", "reaching-versions iteration did not converge");
        }
    }
    let explain = |name: &str, named: Option<usize>, set: Option<&VSet>| -> String {
        let n = set.map(|s| s.len()).unwrap_or(0);
        let named_s = match named {
            Some(v) => format!("{}.{}", name, v),
            None => format!("{} (unversioned)", name),
        };
        if n >= 2 {
            format!("names {} but {} versions can be current here: {} — a phi node is missing on the way", named_s, n, vset_str(name, set))
        } else {
            format!("names {} but the version current here on every path is {}", named_s, vset_str(name, set))
        }
    };
    for b in reach {
        // phi inputs, per reachable predecessor edge
        for (k, p) in phis_of(*b).iter().enumerate() {
            for e in view.in_edges(*b) {
                if !reach.contains(&e.head) {
                    continue;
                }
                let s = &p.incoming[&e.head];
                let set = out.get(&e.head).and_then(|m| m.get(s.name()));
                if set != Some(&single(s.ssa())) {
                    fv::fail!(
                        use_sig("phi-input", s.name(), info),
                        "phi {} of block {} ({}): the input for the edge {}->{} {}",
                        k, b, p.out, e.head, b, explain(s.name(), s.ssa(), set)
                    );
                }
            }
        }
        let mut cur = block_in(&out, *b);
        for p in phis_of(*b) {
            cur.insert(p.out.name().to_string(), single(p.out.ssa()));
        }
        for (pos, i) in view.blocks[b].iter().enumerate() {
            for s in op_reads(&i.op) {
                if cur.get(s.name()) != Some(&single(s.ssa())) {
                    fv::fail!(
                        use_sig(op_kind(&i.op), s.name(), info),
                        "block {} position {} (`{}`): the operand {}",
                        b, pos, i.op, explain(s.name(), s.ssa(), cur.get(s.name()))
                    );
                }
            }
            for s in op_writes(&i.op) {
                cur.insert(s.name().to_string(), single(s.ssa()));
            }
        }
        for e in view.out_edges(*b) {
            if let Some(c) = &e.cond {
                let mut v = Vec::new();
                expr_scalars(c, &mut v);
                for s in v {
                    if cur.get(s.name()) != Some(&single(s.ssa())) {
                        fv::fail!(
                            use_sig("guard", s.name(), info),
                            "guard of edge {}->{} (`{}`): the operand {}",
                            e.head, e.tail, c, explain(s.name(), s.ssa(), cur.get(s.name()))
                        );
                    }
                }
            }
        }
    }
    Ok(())
}

// ------------------------------------------------------------------------------------------
// dynamic oracle
// ------------------------------------------------------------------------------------------

struct MangledPhi {
    out: String,
    incoming: BTreeMap<usize, String>,
    entry: Option<String>,
}

struct Runnable {
    view: FnView,
    phis: BTreeMap<usize, Vec<MangledPhi>>,
}

fn runnable(ssa: &SsaView) -> Runnable {
    let blocks = ssa
        .view
        .blocks
        .iter()
        .map(|(b, is)| (*b, is.iter().map(|i| InstrView { index: i.index, address: i.address, op: map_op(&i.op, &mangle) }).collect()))
        .collect();
    let edges = ssa
        .view
        .edges
        .iter()
        .map(|e| EdgeView { head: e.head, tail: e.tail, cond: e.cond.as_ref().map(|c| map_expr(c, &mangle)) })
        .collect();
    let phis = ssa
        .phis
        .iter()
        .map(|(b, ps)| {
            (
                *b,
                ps.iter()
                    .map(|p| MangledPhi {
                        out: mangle(&p.out).name().to_string(),
                        incoming: p.incoming.iter().map(|(k, s)| (*k, mangle(s).name().to_string())).collect(),
                        entry: p.entry.as_ref().map(|s| mangle(s).name().to_string()),
                    })
                    .collect(),
            )
        })
        .collect();
    Runnable { view: FnView { blocks, edges, entry: ssa.view.entry }, phis }
}

/// all phi nodes of `block` read their selected input first, then all write
fn apply_phis(m: &mut Machine, r: &Runnable, block: usize, from: Option<usize>) -> Result<usize, Failure> {
    let Some(ps) = r.phis.get(&block) else { return Ok(0) };
    let mut writes: Vec<(&str, Option<Bv>)> = Vec::new();
    for p in ps {
        let src = match from {
            Some(h) => p.incoming.get(&h),
            None => p.entry.as_ref(),
        };
        let Some(src) = src else {
            fv::fail!(
                "C10|dynamic|phi|no-input-for-taken-edge",
                "control entered block {} {} but the phi node writing {} has no input for it",
                block,
                match from {
                    Some(h) => format!("from block {}", h),
                    None => "as the function entry".to_string(),
                },
                p.out
            );
        };
        writes.push((&p.out, m.state.scalars.get(src).cloned()));
    }
    let n = writes.len();
    for (o, v) in writes {
        match v {
            Some(v) => {
                m.state.scalars.insert(o.to_string(), v);
            }
            None => {
                m.state.scalars.remove(o);
            }
        }
    }
    Ok(n)
}

fn exec_intrinsic(m: &mut Machine, i: &il::Intrinsic, seed: u64, event: u64) -> Result<Vec<(String, Bv)>, Fault> {
    let mut wrote = Vec::new();
    if let Some(xs) = i.written_expressions() {
        let mut ws = Vec::new();
        for x in xs {
            expr_scalars(x, &mut ws);
        }
        for s in ws {
            let v = havoc_value(seed, event, base_name(s.name()), s.bits());
            m.state.scalars.insert(s.name().to_string(), v.clone());
            wrote.push((base_name(s.name()).to_string(), v));
        }
    }
    m.events += 1;
    m.last_effect = Some(Effect::Intrinsic { text: i.instruction_str().to_string(), wrote: wrote.clone() });
    m.loc = m.fallthrough()?;
    Ok(wrote)
}

fn demangle_effect(e: &Effect) -> Effect {
    match e {
        Effect::Assign { name, value } => Effect::Assign { name: base_name(name).to_string(), value: value.clone() },
        Effect::Load { name, addr, value } => Effect::Load { name: base_name(name).to_string(), addr: *addr, value: value.clone() },
        Effect::Intrinsic { text, wrote } => Effect::Intrinsic { text: text.clone(), wrote: wrote.iter().map(|(n, v)| (base_name(n).to_string(), v.clone())).collect() },
        other => other.clone(),
    }
}

fn demangle_fault(f: &Fault) -> Fault {
    match f {
        Fault::UndefinedScalar(n) => Fault::UndefinedScalar(base_name(n).to_string()),
        other => other.clone(),
    }
}

#[derive(Default)]
struct DynStats {
    steps: u64,
    phis: u64,
    end: &'static str,
}

fn effect_sig(e: &Effect) -> &'static str {
    match e {
        Effect::Assign { .. } => "assign",
        Effect::Store { .. } => "store",
        Effect::Load { .. } => "load",
        Effect::Branch { .. } => "branch",
        Effect::Intrinsic { .. } => "intrinsic",
        Effect::Nop | Effect::Pass => "nop",
    }
}

fn run_pair(orig: &FnView, r: &Runnable, state: &RefState, seed: u64, info: &OrigInfo, st: &mut DynStats) -> Result<(), Failure> {
    let mut a = Machine::new(orig, state.clone()).map_err(|e| Failure::new("C10|harness|machine", format!("{:?}", e)))?;
    let mut b = Machine::new(&r.view, state.clone()).map_err(|e| Failure::new("C10|harness|machine", format!("{:?}", e)))?;
    st.phis += apply_phis(&mut b, r, orig.entry.unwrap(), None)? as u64;
    for step in 0..MAX_STEPS as u64 {
        let loc = a.loc;
        if b.loc != loc {
            fv::fail!("C10|dynamic|path", "step {}: the original is at {:?}, the SSA form at {:?}", step, loc, b.loc);
        }
        st.steps += 1;
        // values of the scalars read here
        let compare_reads = |what: &str, kind: &str, ra: Vec<&il::Scalar>, rb: Vec<&il::Scalar>, a: &Machine, b: &Machine| -> Result<(), Failure> {
            for (x, y) in ra.iter().zip(rb.iter()) {
                let (va, vb) = (a.state.scalars.get(x.name()), b.state.scalars.get(y.name()));
                if va != vb {
                    let sig = if kind == "guard" && !info.upward_exposed.contains(x.name()) {
                        "C10|dynamic|read-value|guard|scalar-live-into-blocks-only-through-guards".to_string()
                    } else {
                        format!("C10|dynamic|read-value|{}", kind)
                    };
                    fv::fail!(sig, "step {} at {:?}: {} reads {} = {:?} in the original, the SSA form reads {} = {:?}", step, loc, what, x.name(), va, y.name().replace('#', "."), vb);
                }
            }
            Ok(())
        };
        let (ra, rb): (Result<Effect, Fault>, Result<Effect, Fault>) = match loc {
            Loc::Instr(bk, idx) => {
                let ia = orig.instr(bk, idx).ok_or_else(|| Failure::new("C10|harness|machine", "instruction vanished"))?;
                let ib = r.view.instr(bk, idx).ok_or_else(|| Failure::new("C10|harness|machine", "instruction vanished"))?;
                compare_reads(&format!("`{}`", ia.op), op_kind(&ia.op), op_reads(&ia.op), op_reads(&ib.op), &a, &b)?;
                if let (il::Operation::Intrinsic { intrinsic: xa }, il::Operation::Intrinsic { intrinsic: xb }) = (&ia.op, &ib.op) {
                    let text = xa.instruction_str().to_string();
                    let wa = exec_intrinsic(&mut a, xa, seed, step);
                    let wb = exec_intrinsic(&mut b, xb, seed, step);
                    (
                        wa.map(|w| Effect::Intrinsic { text: text.clone(), wrote: w }),
                        wb.map(|w| Effect::Intrinsic { text: text.clone(), wrote: w }),
                    )
                } else {
                    let mut ea = a.step();
                    let mut eb = b.step();
                    // a Branch leaves the location unchanged: model a call that returns having
                    // changed nothing, on both sides
                    if let Ok(Effect::Branch { .. }) = ea {
                        match a.fallthrough() {
                            Ok(l) => a.loc = l,
                            Err(f) => {
                                a.last_effect = ea.clone().ok();
                                ea = Err(f)
                            }
                        }
                    }
                    if let Ok(Effect::Branch { .. }) = eb {
                        match b.fallthrough() {
                            Ok(l) => b.loc = l,
                            Err(f) => {
                                b.last_effect = eb.clone().ok();
                                eb = Err(f)
                            }
                        }
                    }
                    (ea, eb)
                }
            }
            Loc::Edge(..) | Loc::Empty(_) => (a.step(), b.step()),
        };
        // the end of a block was reached: its guards have just been evaluated (both sides got
        // past the instruction itself); compare what they read before looking at the outcome, so
        // that a stale guard operand is reported as such and not as the path it leads to
        let block_end = match loc {
            Loc::Instr(bk, idx) => orig.blocks.get(&bk).and_then(|v| v.last()).map(|i| i.index) == Some(idx),
            Loc::Empty(_) => true,
            Loc::Edge(..) => false,
        };
        if block_end && (ra.is_ok() || a.last_effect.is_some()) && (rb.is_ok() || b.last_effect.is_some()) {
            let h = match loc {
                Loc::Instr(bk, _) | Loc::Empty(bk) => bk,
                Loc::Edge(h, _) => h,
            };
            for (ea, eb) in orig.out_edges(h).iter().zip(r.view.out_edges(h).iter()) {
                if let (Some(ca), Some(cb)) = (&ea.cond, &eb.cond) {
                    let (mut va, mut vb) = (Vec::new(), Vec::new());
                    expr_scalars(ca, &mut va);
                    expr_scalars(cb, &mut vb);
                    compare_reads(&format!("the guard `{}` of edge {}->{}", ca, ea.head, ea.tail), "guard", va, vb, &a, &b)?;
                }
            }
        }
        match (&ra, &rb) {
            (Ok(ea), Ok(eb)) => {
                let eb = demangle_effect(eb);
                if *ea != eb {
                    fv::fail!(format!("C10|dynamic|effect|{}", effect_sig(ea)), "step {} at {:?}: the original did {:?}, the SSA form did {:?}", step, loc, ea, eb);
                }
            }
            (Err(fa), Err(fb)) => {
                let fb = demangle_fault(fb);
                let (la, lb) = (a.last_effect.clone(), b.last_effect.as_ref().map(demangle_effect));
                if *fa != fb || la != lb {
                    fv::fail!(
                        "C10|dynamic|fault-mismatch",
                        "step {} at {:?}: the original stopped with {:?} after {:?}, the SSA form with {:?} after {:?}",
                        step, loc, fa, la, fb, lb
                    );
                }
                st.end = match fa {
                    Fault::NoEdge => "dyn-end-no-successor",
                    _ => "dyn-end-fault",
                };
                return Ok(());
            }
            (x, y) => {
                fv::fail!("C10|dynamic|fault-mismatch", "step {} at {:?}: the original gave {:?}, the SSA form {:?}", step, loc, x, y.as_ref().map(demangle_effect).map_err(demangle_fault));
            }
        }
        if a.loc != b.loc {
            fv::fail!("C10|dynamic|path", "step {}: after {:?} the original continues at {:?}, the SSA form at {:?}", step, loc, a.loc, b.loc);
        }
        if let Loc::Edge(h, t) = loc {
            st.phis += apply_phis(&mut b, r, t, Some(h))? as u64;
        }
    }
    st.end = "dyn-end-step-budget";
    Ok(())
}

// ------------------------------------------------------------------------------------------
// the check
// ------------------------------------------------------------------------------------------

fn only() -> Option<String> {
    std::env::var("C10_ONLY").ok()
}

fn check(case: &Case, obs: &mut Obs) -> Result<(), Failure> {
    let mut function = case.spec.build().map_err(|e| Failure::new("C10|harness|build", e))?;
    if function.control_flow_graph().entry().is_none() {
        obs.exclude("no-entry");
        return Ok(());
    }
    // one input in two went through ControlFlowGraph::merge() first, as lifted functions do: the
    // folded function (block indices now sparse, some at or above the number of blocks) is the input
    if case.havoc_seed % 2 == 0 {
        let before = function.control_flow_graph().blocks().len();
        if let Ok(Ok(())) = guard(|| function.control_flow_graph_mut().merge()) {
            let idx: Vec<usize> = function.control_flow_graph().blocks().iter().map(|b| b.index()).collect();
            if idx.len() < before {
                obs.class("input-folded-by-merge");
            }
            if idx.iter().any(|i| *i >= idx.len()) {
                obs.class("block-index-at-or-above-block-count");
            }
        } else {
            obs.exclude("merge-failed-on-input");
            return Ok(());
        }
    }
    let orig = FnView::of(&function);
    let info = analyse_original(&orig);

    // ---- classes of the input
    let entry = orig.entry.unwrap();
    if orig.edges.iter().any(|e| e.tail == entry && info.reach.contains(&e.head)) {
        obs.class("loop-through-entry");
    }
    if orig.edges.iter().any(|e| e.head == e.tail && info.reach.contains(&e.head)) {
        obs.class("self-loop");
    }
    if info.unreachable_blocks > 0 {
        obs.class("unreachable-block");
    }
    if info.unreachable_pred {
        obs.class("unreachable-predecessor");
    }
    if info.joins > 0 {
        obs.class("join");
    }
    let mut kinds: BTreeSet<(&'static str, bool)> = BTreeSet::new();
    for (kind, name, _n, carried) in &info.multi_uses {
        kinds.insert((kind, *carried));
        obs.class(&format!("multi-def-use-{}", kind));
        if *carried {
            obs.class("loop-carried");
        }
        if *kind == "guard" && !info.read_by_instruction.contains(name) {
            obs.class("guard-only-use-after-join");
        }
        if *kind == "guard" && !info.upward_exposed.contains(name) {
            obs.class("guard-use-after-join-not-upward-exposed");
        }
        if name == "p0" {
            obs.class(&format!("operand-only-use-after-join-{}", kind));
        }
    }
    for is in orig.blocks.values() {
        for i in is {
            obs.class(&format!("op-{}", op_kind(&i.op)));
        }
    }

    // ---- the transformation
    let ssa_fn = match guard(|| ssa_transformation(&function)) {
        Err(pi) => fv::fail!(
            format!("C10|transform|panic|{}", if info.unreachable_blocks > 0 { "unreachable-block" } else { "all-reachable" }),
            "ssa_transformation panicked: {} ({}:{})", pi.msg, pi.file, pi.line
        ),
        Ok(Err(e)) => fv::fail!(
            format!("C10|transform|err|{}", if info.unreachable_blocks > 0 { "unreachable-block" } else { "all-reachable" }),
            "ssa_transformation returned an error for a function with an entry: {}", e
        ),
        Ok(Ok(f)) => f,
    };
    let ssa = ssa_view(&ssa_fn);
    let with_ssa = |f: Failure| Failure::new(f.sig, format!("{}\n{}", f.msg, render_ssa(&ssa)));
    check_structure(&orig, &ssa).map_err(with_ssa)?;

    let n_phis: usize = info.reach.iter().map(|b| ssa.phis.get(b).map(|v| v.len()).unwrap_or(0)).sum();
    if n_phis > 0 {
        obs.class("has-phi");
    }
    if ssa.phis.get(&entry).map(|v| !v.is_empty()).unwrap_or(false) {
        obs.class("phi-at-entry");
    }
    obs.count("phi-nodes", n_phis as u64);

    let mode = only();
    let stat = if mode.as_deref() == Some("dynamic") { Ok(()) } else { check_static(&ssa, &info) };
    let mut st = DynStats::default();
    let dynm = if mode.as_deref() == Some("static") {
        Ok(())
    } else {
        let r = runnable(&ssa);
        let mut res = Ok(());
        for (k, s) in case.states.iter().enumerate() {
            st.end = "";
            if let Err(f) = run_pair(&orig, &r, s, case.havoc_seed, &info, &mut st) {
                res = Err(Failure::new(f.sig, format!("initial state {}: {}", k, f.msg)));
                break;
            }
            if !st.end.is_empty() {
                obs.class(st.end);
            }
        }
        res
    };
    obs.count("dyn-steps", st.steps);
    obs.count("dyn-phi-evaluations", st.phis);
    if st.phis > 0 {
        obs.class("dyn-phi-evaluated");
    }
    match (stat, dynm) {
        (Ok(()), Ok(())) => {}
        (Err(s), d) => {
            let note = match d {
                Ok(()) if mode.is_none() => format!("(no divergence observed when executing from the {} initial states)", case.states.len()),
                Ok(()) => String::new(),
                Err(d) => format!("(executing also diverges: {} — {})", d.sig, d.msg),
            };
            return Err(with_ssa(Failure::new(s.sig, format!("{} {}", s.msg, note))));
        }
        (Ok(()), Err(d)) => return Err(with_ssa(d)),
    }

    if !info.multi_uses.is_empty() {
        obs.class("nontrivial");
        obs.nontrivial(&(
            info.reach.len(),
            info.joins.min(4),
            kinds,
            info.unreachable_pred,
            n_phis.min(6),
            orig.edges.iter().any(|e| e.tail == entry && info.reach.contains(&e.head)),
        ));
    }
    if obs.want_sample() {
        obs.sample(render(case));
    }
    Ok(())
}

fn render(c: &Case) -> String {
    let mut s = c.spec.render();
    s.push_str(" scalars:");
    for (n, w) in &c.pool.scalars {
        s.push_str(&format!(" {}:{}", n, w));
    }
    s.push_str(&format!("\n havoc seed 0x{:x}; {} initial states ({} endian)", c.havoc_seed, c.states.len(), if c.states.first().map(|x| x.mem.big_endian).unwrap_or(false) { "big" } else { "little" }));
    for (k, st) in c.states.iter().enumerate().take(2) {
        s.push_str(&format!("\n state {}:", k));
        for (n, v) in &st.scalars {
            s.push_str(&format!(" {}={}", n, v));
        }
    }
    s
}

fn simplify(c: &Case) -> Vec<Case> {
    let mut v = Vec::new();
    let n = c.spec.blocks.len();
    if c.states.len() > 1 {
        for keep in 0..c.states.len() {
            let mut d = c.clone();
            d.states = vec![c.states[keep].clone()];
            v.push(d);
        }
    }
    // drop the last block
    if n > 1 && c.spec.entry != Some(n - 1) {
        let mut d = c.clone();
        d.spec.blocks.pop();
        d.spec.edges.retain(|e| e.0 != n - 1 && e.1 != n - 1);
        if d.spec.exit == Some(n - 1) {
            d.spec.exit = None;
        }
        v.push(d);
    }
    for i in 0..c.spec.edges.len() {
        let mut d = c.clone();
        d.spec.edges.remove(i);
        v.push(d);
    }
    for b in 0..n {
        for i in 0..c.spec.blocks[b].len() {
            let mut d = c.clone();
            d.spec.blocks[b].remove(i);
            v.push(d);
        }
    }
    // a guard on the only out-edge of a block can go
    for i in 0..c.spec.edges.len() {
        let h = c.spec.edges[i].0;
        if c.spec.edges[i].2.is_some() && c.spec.edges.iter().filter(|e| e.0 == h).count() == 1 {
            let mut d = c.clone();
            d.spec.edges[i].2 = None;
            v.push(d);
        }
    }
    // replace an assignment's source by a constant
    for b in 0..n {
        for i in 0..c.spec.blocks[b].len() {
            if let il::Operation::Assign { dst, src } = &c.spec.blocks[b][i].op {
                if !matches!(src, il::Expression::Constant(_)) {
                    let mut d = c.clone();
                    d.spec.blocks[b][i].op = il::Operation::Assign { dst: dst.clone(), src: konst(1, dst.bits()) };
                    v.push(d);
                }
            }
        }
    }
    v
}

/// libFuzzer entry: the input bytes are the entropy tape (little-endian u32 words); same
/// generator, same oracle as the proptest tiers.
#[allow(dead_code)]
pub fn fuzz_bytes(data: &[u8]) {
    let tape = fv::tape::words_from_bytes(data, 2000);
    let case = decode(&mut Tape::new(&tape));
    engine::fuzz_one("C10", &case, &render, &check);
}

#[allow(dead_code)]
fn main() -> std::process::ExitCode {
    let mut spec = Spec::new(
        "C10",
        "gen_fn IL functions (1-9 blocks, 0-4 generated operations each of all six kinds over a pool of 2-6 scalars of widths 1..128, 0-3 out-edges with exclusive/exhaustive guards, loops through the entry, self-loops, unreachable blocks that may feed live ones, entry sometimes moved) plus planted scalars assigned in 2-3 blocks and read only by the guards of one block / only by one Store, Load, Branch operand or intrinsic read set, x 8 initial states; ssa_transformation's result is checked statically (structure modulo SSA indices, single assignment, reaching-versions data-flow at every operand / guard / phi input, phi shape) and by lock-step execution against the original (reference interpreter on both, phi nodes selected by the incoming edge); non-trivial = some use (operand or guard) in the reachable part of the original is reached by >= 2 definitions of its scalar (which implies a join block); distinct = (reachable blocks, joins, set of (kind of multi-definition use, loop-carried), unreachable predecessor, phi count capped, loop through entry)",
        Box::new(|_t: Tier| from_tape(2000, decode)),
        |t| t.pick(100_000, 3_000_000),
        check,
    );
    spec.render = render;
    spec.simplify = Some(simplify);
    spec.case_timeout_s = 120;
    spec.crash_sig = |_c: &Case| "C10|transform|abort".to_string();
    spec.assumptions = vec![
        "a scalar name has one width throughout a function (every lifter guarantees it; phi placement is keyed by name and width)".into(),
        "intrinsic `arguments` are not treated as uses: the property speaks of uses, falcon documents arguments as intrinsic-dependent and only read_expressions / written_expressions as the read and written sets; generated intrinsics have no arguments".into(),
        "an intrinsic writes exactly its declared written scalars (oracle-chosen values keyed by step and unversioned name, identical on both sides) and an intrinsic with undeclared effects writes nothing; a Branch is a call that returns having changed nothing. Both behaviours are realisable, so any divergence under them is a real one".into(),
        "executions are cut after 160 steps; a fault (unmapped address, division by zero, no enabled edge) ends the run and must be the same fault at the same place on both sides".into(),
        "phi inputs for predecessors that are unreachable from the entry, and everything inside unreachable blocks except their presence and their instructions modulo SSA indices, are not constrained".into(),
    ];
    spec.floors = vec![
        ("block-index-at-or-above-block-count", 0.03),
        ("nontrivial", 0.40),
        ("loop-carried", 0.20),
        ("guard-only-use-after-join", 0.05),
        ("unreachable-predecessor", 0.05),
        ("loop-through-entry", 0.10),
        ("self-loop", 0.10),
        ("dyn-phi-evaluated", 0.30),
    ];
    engine::main(spec)
}
