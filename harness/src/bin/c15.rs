//! C15 — CFG construction and editing keep graphs consistent and meaning intact.
//!
//! Domain: (a) histories of 1-40 editing operations on one `il::ControlFlowGraph` (new_block,
//! appending operations to a block, unconditional / conditional edges, set_entry, set_exit,
//! append(other), insert(other), merge, Block::append, remove_instruction, and the invalid forms
//! of those calls); (b) `BlockTranslationResult::blockify` on generated per-instruction graphs.
//! Block operands are *selectors* resolved against the live graph when the history is executed,
//! so every history is meaningful whatever falcon did before.
//!
//! Oracle, after EVERY call: the four invariants of the property text, computed from the public
//! getters only (edges join existing blocks; successor/predecessor/edges_in/edges_out agree with
//! edges(); instruction indices unique per block; entry()/exit() name existing blocks), plus
//! Ok/Err as documented for valid / invalid calls.  Meaning: for merge, append (and the indices
//! returned by insert) the reference interpreter `fv::refil::Machine` runs the graph before and
//! after from the entry on 8 generated states; the sequences of executed operations, the way
//! the run ends and the final states must agree; for append(a, b) the expected run is a's run
//! followed by b's run from a's final state.

use falcon::il;
use falcon::translator::BlockTranslationResult;
use fv::bv::Bv;
use fv::engine::{self, guard, Failure, Obs, Spec, Tier};
use fv::gen_il::{gen_expr, gen_op, gen_pool, FnSpec, IlParams, OpSpec, Pool};
use fv::refil::{EdgeView, Effect, Fault, FnView, InstrView, Loc, Machine, RefMem, RefState};
use fv::tape::{from_tape, Tape};
use serde::{Deserialize, Serialize};
use std::collections::{BTreeMap, BTreeSet};

// ---------------------------------------------------------------------------------------------
// case data

/// A block operand, resolved against the live graph when the operation is executed.
#[derive(Clone, Debug, Serialize, Deserialize, PartialEq, Eq, Hash)]
enum Ref {
    /// the k-th live block (scaled)
    Any(u16),
    /// the live block with the highest index (normally the most recently created one)
    Last,
    /// a live block without out-edges (preferably not the exit); falls back to `Any`
    NoOut(u16),
    /// a live block without in-edges that is not the entry; falls back to `Any`
    NoIn(u16),
    Entry,
    Exit,
    /// entry / exit index returned by the most recent successful insert
    InsEntry,
    InsExit,
    /// entry / exit of the graph just before the most recent insert
    SavedEntry,
    SavedExit,
    /// an index that names no block
    Missing(u8),
}

#[derive(Clone, Debug, Serialize, Deserialize)]
enum Op {
    NewBlock { ops: Vec<il::Operation> },
    AddOps { block: Ref, ops: Vec<il::Operation> },
    Uncond { head: Ref, tail: Ref },
    /// conditional_edge(head, t1, cond) then conditional_edge(head, t2, cond == 0)
    Cond { head: Ref, t1: Ref, t2: Ref, cond: il::Expression },
    SetEntry { block: Ref },
    SetExit { block: Ref },
    Append { other: FnSpec },
    Insert { other: FnSpec },
    Merge,
    /// cfg.block_mut(dst).append(&cfg.block(src).clone())
    BlockAppend { dst: Ref, src: Ref },
    /// remove the instruction at position pos (scaled) of the block; pos == 0xffff: an index
    /// that names no instruction
    RemoveInstr { block: Ref, pos: u16 },
}

impl Op {
    fn name(&self) -> &'static str {
        match self {
            Op::NewBlock { .. } => "new_block",
            Op::AddOps { .. } => "add-operations",
            Op::Uncond { .. } => "unconditional_edge",
            Op::Cond { .. } => "conditional_edge",
            Op::SetEntry { .. } => "set_entry",
            Op::SetExit { .. } => "set_exit",
            Op::Append { .. } => "append",
            Op::Insert { .. } => "insert",
            Op::Merge => "merge",
            Op::BlockAppend { .. } => "block-append",
            Op::RemoveInstr { .. } => "remove_instruction",
        }
    }
}

#[derive(Clone, Debug, Serialize, Deserialize)]
struct StateSpec {
    /// one value per pool scalar (truncated to its width)
    vals: Vec<u64>,
    mem_seed: u32,
}

#[derive(Clone, Debug, Serialize, Deserialize)]
enum Body {
    History(Vec<Op>),
    /// per-instruction graphs handed to BlockTranslationResult::new(..).blockify()
    Blockify(Vec<FnSpec>),
}

#[derive(Clone, Debug, Serialize, Deserialize)]
struct Case {
    pool: Pool,
    big_endian: bool,
    states: Vec<StateSpec>,
    body: Body,
}

const N_STATES: usize = 8;
const MAX_OPS: usize = 48;
const MAX_STEPS: usize = 700;

/// bound on the length of the compared instruction sequences / on the explored path states
const PATH_OPS: usize = 10;
const PATH_CAP: usize = 4000;

fn params() -> IlParams {
    IlParams {
        max_expr_depth: 2,
        widths: vec![1, 8, 16, 32, 64],
        max_scalars: 5,
        ..IlParams::default()
    }
}

// ---------------------------------------------------------------------------------------------
// generator

fn gen_ops(t: &mut Tape, pool: &Pool, p: &IlParams, weights: &[u32]) -> Vec<il::Operation> {
    let n = t.weighted(weights);
    let mut counter = 0usize;
    (0..n).map(|_| gen_op(t, pool, p, &mut counter)).collect()
}

/// A small graph with an entry and an exit (any block numbers); the exit block has no out-edges; every other block
/// has one unconditional out-edge or an exclusive pair of guarded ones.  Back edges, self-loops
/// and empty blocks are common.  `invalid`: drop the entry or the exit.
fn gen_other(t: &mut Tape, pool: &Pool, p: &IlParams, max_blocks: usize, allow_invalid: bool) -> FnSpec {
    let n = 1 + t.weighted(&[40, 30, 20, 10]).min(max_blocks - 1);
    let mut next_addr = 0x4000u64;
    let mut blocks = Vec::new();
    for _ in 0..n {
        let ops = gen_ops(t, pool, p, &[30, 40, 20, 10]);
        blocks.push(
            ops.into_iter()
                .map(|op| {
                    next_addr += 4;
                    OpSpec { op, address: Some(next_addr) }
                })
                .collect::<Vec<_>>(),
        );
    }
    let mut edges = Vec::new();
    for i in 0..n.saturating_sub(1) {
        match t.weighted(&[55, 30, 15]) {
            0 => edges.push((i, i + 1, None)),
            1 => {
                let other = t.below(n);
                if other == i + 1 {
                    edges.push((i, i + 1, None));
                } else {
                    let c = gen_expr(t, pool, p, 1, 2);
                    let nc = il::Expression::Cmpeq(
                        Box::new(c.clone()),
                        Box::new(il::Expression::constant(il::const_(0, 1))),
                    );
                    if t.chance(1, 2) {
                        edges.push((i, i + 1, Some(c)));
                        edges.push((i, other, Some(nc)));
                    } else {
                        edges.push((i, other, Some(c)));
                        edges.push((i, i + 1, Some(nc)));
                    }
                }
            }
            _ => edges.push((i, t.below(n), None)),
        }
    }
    // the exit block of a graph given to append / insert may loop: a conditional self-loop (a one-
    // block countdown) or a conditional edge back into the graph.  (Per-instruction graphs handed
    // to blockify keep an exit without out-edges.)
    if allow_invalid && t.chance(1, 5) {
        let c = gen_expr(t, pool, p, 1, 2);
        let tgt = if t.chance(1, 2) { n - 1 } else { t.below(n) };
        edges.push((n - 1, tgt, Some(c)));
    }
    // entry and exit are not tied to the lowest / highest block index: renumber the blocks
    let mut perm: Vec<usize> = (0..n).collect();
    if n > 1 && t.chance(1, 2) {
        for i in (1..n).rev() {
            perm.swap(i, t.below(i + 1));
        }
    }
    let mut renumbered = vec![Vec::new(); n];
    for (i, b) in blocks.into_iter().enumerate() {
        renumbered[perm[i]] = b;
    }
    let blocks = renumbered;
    for e in edges.iter_mut() {
        e.0 = perm[e.0];
        e.1 = perm[e.1];
    }
    let (mut entry, mut exit) = (Some(perm[0]), Some(perm[n - 1]));
    if allow_invalid && t.chance(1, 16) {
        if t.chance(1, 2) {
            entry = None;
        } else {
            exit = None;
        }
    }
    // `index: Some(_)` is used as a flag here (a ControlFlowGraph has no index): the graph is merged
    // before it is handed to append / insert, so that its block indices have holes
    let premerge = if allow_invalid && t.chance(1, 4) { Some(1) } else { None };
    FnSpec { address: 0x4000, blocks, edges, entry, exit, gaps: vec![], index: premerge, swaps: vec![] }
}

fn gen_ref_head(t: &mut Tape) -> Ref {
    match t.weighted(&[60, 18, 8, 6, 4, 4]) {
        0 => Ref::NoOut(t.raw() as u16),
        1 => Ref::Any(t.raw() as u16),
        2 => Ref::Last,
        3 => Ref::Exit,
        4 => Ref::InsExit,
        _ => Ref::Missing(t.below(3) as u8),
    }
}

fn gen_ref_tail(t: &mut Tape) -> Ref {
    match t.weighted(&[35, 30, 15, 8, 4, 4, 4]) {
        0 => Ref::NoIn(t.raw() as u16),
        1 => Ref::Any(t.raw() as u16),
        2 => Ref::Last,
        3 => Ref::Entry,
        4 => Ref::InsEntry,
        5 => Ref::Exit,
        _ => Ref::Missing(t.below(3) as u8),
    }
}

fn gen_ref_any(t: &mut Tape) -> Ref {
    match t.weighted(&[60, 20, 8, 6, 6]) {
        0 => Ref::Any(t.raw() as u16),
        1 => Ref::Last,
        2 => Ref::Entry,
        3 => Ref::Exit,
        _ => Ref::Missing(t.below(3) as u8),
    }
}

fn gen_history(t: &mut Tape, pool: &Pool, p: &IlParams) -> Vec<Op> {
    let n = t.range(1, 40);
    let mut ops: Vec<Op> = Vec::new();
    // the usual way a graph starts (BlockTranslationResult::blockify, every lifter)
    if !t.chance(3, 20) {
        ops.push(Op::NewBlock { ops: gen_ops(t, pool, p, &[45, 30, 15, 10]) });
        ops.push(Op::SetEntry { block: Ref::Last });
        if !t.chance(1, 4) {
            ops.push(Op::SetExit { block: Ref::Last });
        }
    }
    while ops.len() < n {
        match t.weighted(&[16, 6, 16, 8, 4, 8, 11, 5, 12, 4, 4, 6]) {
            0 => ops.push(Op::NewBlock { ops: gen_ops(t, pool, p, &[45, 30, 15, 10]) }),
            1 => ops.push(Op::AddOps { block: gen_ref_any(t), ops: gen_ops(t, pool, p, &[0, 60, 30, 10]) }),
            2 => {
                let head = gen_ref_head(t);
                // a self-loop now and then
                let tail = if t.chance(1, 16) { head.clone() } else { gen_ref_tail(t) };
                ops.push(Op::Uncond { head, tail });
            }
            3 => ops.push(Op::Cond {
                head: gen_ref_head(t),
                t1: gen_ref_tail(t),
                t2: gen_ref_tail(t),
                cond: gen_expr(t, pool, p, 1, 2),
            }),
            4 => ops.push(Op::SetEntry { block: gen_ref_any(t) }),
            5 => ops.push(Op::SetExit {
                block: if t.chance(1, 8) { gen_ref_any(t) } else { Ref::NoOut(t.raw() as u16) },
            }),
            6 => ops.push(Op::Append { other: gen_other(t, pool, p, 4, true) }),
            7 => {
                ops.push(Op::Insert { other: gen_other(t, pool, p, 4, true) });
                // what translate_function_extended does next: wire the inserted graph in and
                // name entry and exit again
                if t.chance(3, 4) {
                    ops.push(Op::Uncond { head: Ref::SavedExit, tail: Ref::InsEntry });
                    ops.push(Op::SetEntry { block: Ref::SavedEntry });
                    ops.push(Op::SetExit { block: Ref::InsExit });
                }
            }
            8 => ops.push(Op::Merge),
            9 => ops.push(Op::BlockAppend { dst: gen_ref_any(t), src: gen_ref_any(t) }),
            10 => ops.push(Op::RemoveInstr {
                block: gen_ref_any(t),
                pos: if t.chance(1, 6) { 0xffff } else { (t.raw() as u16).min(0xfffe) },
            }),
            _ => {
                // grow a chain: new block, edge from a block without successors to it
                ops.push(Op::NewBlock { ops: gen_ops(t, pool, p, &[45, 30, 15, 10]) });
                ops.push(Op::Uncond { head: Ref::NoOut(t.raw() as u16), tail: Ref::Last });
            }
        }
    }
    ops.truncate(40);
    ops
}

fn decode(t: &mut Tape) -> Case {
    let p = params();
    let pool = gen_pool(t, &p);
    let big_endian = t.chance(1, 2);
    let mut states = Vec::new();
    for _ in 0..N_STATES {
        let mut vals = Vec::new();
        for (_, w) in &pool.scalars {
            let v = if *w == p.addr_bits && t.chance(1, 2) {
                p.scratch_base + t.below(p.scratch_len as usize) as u64
            } else {
                t.biased(*w) as u64
            };
            vals.push(v);
        }
        states.push(StateSpec { vals, mem_seed: t.raw() });
    }
    let body = if t.chance(3, 20) {
        let n = t.range(0, 5);
        Body::Blockify((0..n).map(|_| gen_other(t, &pool, &p, 3, false)).collect())
    } else {
        Body::History(gen_history(t, &pool, &p))
    };
    Case { pool, big_endian, states, body }
}

fn build_state(pool: &Pool, s: &StateSpec, big_endian: bool) -> RefState {
    let p = params();
    let mut scalars = BTreeMap::new();
    for (i, (name, w)) in pool.scalars.iter().enumerate() {
        let v = s.vals.get(i).copied().unwrap_or(0);
        scalars.insert(name.clone(), Bv::from_u128(v as u128, *w));
    }
    let mut mem = RefMem::new(big_endian);
    let lo = p.scratch_base.saturating_sub(8);
    let hi = p.scratch_base + p.scratch_len.next_power_of_two() + 24;
    for a in lo..hi {
        let x = (a ^ s.mem_seed as u64).wrapping_mul(0x9E37_79B9_7F4A_7C15) >> 56;
        mem.bytes.insert(a, x as u8);
    }
    RefState { scalars, mem }
}

// ---------------------------------------------------------------------------------------------
// observation of a graph through its public getters + the invariants of the property text

#[derive(Clone, Debug, Default)]
struct Snap {
    /// block index -> (instruction index, operation) in block order
    blocks: BTreeMap<usize, Vec<(usize, il::Operation)>>,
    edges: BTreeMap<(usize, usize), Option<il::Expression>>,
    entry: Option<usize>,
    exit: Option<usize>,
}

struct Viol {
    kind: &'static str,
    msg: String,
}

type EdgeKey = (usize, usize, Option<il::Expression>);

impl Snap {
    fn has(&self, b: usize) -> bool {
        self.blocks.contains_key(&b)
    }
    fn out_degree(&self, b: usize) -> usize {
        self.edges.range((b, 0)..=(b, usize::MAX)).count()
    }
    fn in_degree(&self, b: usize) -> usize {
        self.edges.keys().filter(|k| k.1 == b).count()
    }
    fn view(&self, entry: Option<usize>) -> FnView {
        let blocks = self
            .blocks
            .iter()
            .map(|(b, is)| {
                (
                    *b,
                    is.iter()
                        .map(|(i, op)| InstrView { index: *i, address: None, op: op.clone() })
                        .collect(),
                )
            })
            .collect();
        let edges = self
            .edges
            .iter()
            .map(|((h, t), c)| EdgeView { head: *h, tail: *t, cond: c.clone() })
            .collect();
        FnView { blocks, edges, entry }
    }
    /// exit block usable for "the run ended at the exit": exists and has no out-edges
    fn clean_exit(&self) -> Option<usize> {
        self.exit.filter(|e| self.has(*e) && self.out_degree(*e) == 0)
    }
    fn has_cycle(&self) -> bool {
        // iterative colouring over all blocks
        let mut color: BTreeMap<usize, u8> = BTreeMap::new();
        for &root in self.blocks.keys() {
            if color.contains_key(&root) {
                continue;
            }
            let mut stack: Vec<(usize, Vec<usize>)> = vec![(root, self.succs(root))];
            color.insert(root, 1);
            while let Some((b, rest)) = stack.last_mut() {
                if let Some(n) = rest.pop() {
                    match color.get(&n).copied().unwrap_or(0) {
                        1 => return true,
                        0 => {
                            color.insert(n, 1);
                            let s = self.succs(n);
                            stack.push((n, s));
                        }
                        _ => {}
                    }
                } else {
                    color.insert(*b, 2);
                    stack.pop();
                }
            }
        }
        false
    }
    fn succs(&self, b: usize) -> Vec<usize> {
        self.edges
            .range((b, 0)..=(b, usize::MAX))
            .map(|(k, _)| k.1)
            .filter(|t| self.has(*t))
            .collect()
    }
    fn render(&self) -> String {
        let mut s = format!("entry={:?} exit={:?}", self.entry, self.exit);
        for (b, is) in &self.blocks {
            s.push_str(&format!(" | block {}:", b));
            for (i, op) in is {
                s.push_str(&format!(" [{}] {};", i, op));
            }
        }
        for ((h, t), c) in &self.edges {
            match c {
                Some(c) => s.push_str(&format!(" | {}->{} if {}", h, t, c)),
                None => s.push_str(&format!(" | {}->{}", h, t)),
            }
        }
        s
    }
}

/// The instruction sequences that CAN be executed from `entry` when edge guards are ignored (the
/// possibilistic reading of the property's "instruction sequences that can be executed from the
/// entry"): every sequence of at most `limit` operations along a path of the graph, as a
/// prefix-closed set of operation fingerprints.  The second set holds the sequences (at most
/// `limit` long) of the paths that stop exactly at the end of block `stop` (used for append).
/// None when the exploration exceeds `cap` states.
fn path_language(s: &Snap, entry: usize, limit: usize, cap: usize, stop: Option<usize>) -> Option<(BTreeSet<Vec<u64>>, BTreeSet<Vec<u64>>)> {
    let ops_of = |b: usize| -> Vec<u64> { s.blocks.get(&b).map(|is| is.iter().map(|(_, op)| engine::fingerprint(&format!("{}", op))).collect()).unwrap_or_default() };
    let mut lang: BTreeSet<Vec<u64>> = BTreeSet::new();
    let mut ends: BTreeSet<Vec<u64>> = BTreeSet::new();
    let mut seen: BTreeSet<(usize, Vec<u64>)> = BTreeSet::new();
    let mut work: Vec<(usize, Vec<u64>)> = vec![(entry, Vec::new())];
    lang.insert(Vec::new());
    while let Some((b, mut seq)) = work.pop() {
        if !s.has(b) || !seen.insert((b, seq.clone())) {
            continue;
        }
        if seen.len() > cap {
            return None;
        }
        let mut cut = false;
        for f in ops_of(b) {
            if seq.len() >= limit {
                cut = true;
                break;
            }
            seq.push(f);
            lang.insert(seq.clone());
        }
        if cut {
            continue;
        }
        if stop == Some(b) {
            ends.insert(seq.clone());
        }
        for t in s.succs(b) {
            work.push((t, seq.clone()));
        }
    }
    Some((lang, ends))
}

fn first_difference(want: &BTreeSet<Vec<u64>>, got: &BTreeSet<Vec<u64>>) -> Option<String> {
    if let Some(x) = want.iter().find(|x| !got.contains(*x)) {
        return Some(format!("a sequence of {} operations that could be executed before can no longer be executed", x.len()));
    }
    if let Some(x) = got.iter().find(|x| !want.contains(*x)) {
        return Some(format!("a sequence of {} operations can be executed now that could not be executed before", x.len()));
    }
    None
}

/// Read the graph through the public getters and evaluate the invariants of the property text.
/// `check_exit` is false while a recorded finding is known to have left exit() dangling.
fn observe(cfg: &il::ControlFlowGraph, check_exit: bool) -> (Snap, Vec<Viol>) {
    let mut v: Vec<Viol> = Vec::new();
    let mut snap = Snap::default();
    for b in cfg.blocks() {
        let mut seen = BTreeSet::new();
        let mut is = Vec::new();
        for i in b.instructions() {
            if !seen.insert(i.index()) {
                v.push(Viol {
                    kind: "instruction-index-duplicate",
                    msg: format!("block {} holds two instructions with index {}", b.index(), i.index()),
                });
            }
            is.push((i.index(), i.operation().clone()));
        }
        if snap.blocks.insert(b.index(), is).is_some() {
            v.push(Viol { kind: "block-index-duplicate", msg: format!("blocks() lists index {} twice", b.index()) });
        }
    }
    for e in cfg.edges() {
        if !snap.has(e.head()) || !snap.has(e.tail()) {
            v.push(Viol {
                kind: "edge-joins-missing-block",
                msg: format!("edge {}->{} but the blocks are {:?}", e.head(), e.tail(), snap.blocks.keys().collect::<Vec<_>>()),
            });
        }
        if snap.edges.insert((e.head(), e.tail()), e.condition().cloned()).is_some() {
            v.push(Viol { kind: "edge-duplicate", msg: format!("edges() lists {}->{} twice", e.head(), e.tail()) });
        }
    }
    let blocks: Vec<usize> = snap.blocks.keys().copied().collect();
    for b in blocks {
        let want_succ: Vec<usize> = snap.edges.keys().filter(|k| k.0 == b).map(|k| k.1).collect();
        let mut want_pred: Vec<usize> = snap.edges.keys().filter(|k| k.1 == b).map(|k| k.0).collect();
        want_pred.sort();
        match cfg.successor_indices(b) {
            Ok(mut got) => {
                got.sort();
                if got != want_succ {
                    v.push(Viol {
                        kind: "successors-disagree-with-edges",
                        msg: format!("successor_indices({}) = {:?}, edges() say {:?}", b, got, want_succ),
                    });
                }
            }
            Err(e) => v.push(Viol { kind: "successors-disagree-with-edges", msg: format!("successor_indices({}) of a listed block: Err {}", b, e) }),
        }
        match cfg.predecessor_indices(b) {
            Ok(mut got) => {
                got.sort();
                if got != want_pred {
                    v.push(Viol {
                        kind: "predecessors-disagree-with-edges",
                        msg: format!("predecessor_indices({}) = {:?}, edges() say {:?}", b, got, want_pred),
                    });
                }
            }
            Err(e) => v.push(Viol { kind: "predecessors-disagree-with-edges", msg: format!("predecessor_indices({}) of a listed block: Err {}", b, e) }),
        }
        let mut want_out: Vec<EdgeKey> = snap.edges.iter().filter(|(k, _)| k.0 == b).map(|(k, c)| (k.0, k.1, c.clone())).collect();
        let mut want_in: Vec<EdgeKey> = snap.edges.iter().filter(|(k, _)| k.1 == b).map(|(k, c)| (k.0, k.1, c.clone())).collect();
        want_out.sort();
        want_in.sort();
        match cfg.edges_out(b) {
            Ok(got) => {
                let mut got: Vec<EdgeKey> = got.iter().map(|e| (e.head(), e.tail(), e.condition().cloned())).collect();
                got.sort();
                if got != want_out {
                    v.push(Viol {
                        kind: "edges_out-disagrees-with-edges",
                        msg: format!("edges_out({}) lists {:?}, edges() say {:?}", b, got.iter().map(|e| (e.0, e.1)).collect::<Vec<_>>(), want_out.iter().map(|e| (e.0, e.1)).collect::<Vec<_>>()),
                    });
                }
            }
            Err(e) => v.push(Viol { kind: "edges_out-disagrees-with-edges", msg: format!("edges_out({}) of a listed block: Err {}", b, e) }),
        }
        match cfg.edges_in(b) {
            Ok(got) => {
                let mut got: Vec<EdgeKey> = got.iter().map(|e| (e.head(), e.tail(), e.condition().cloned())).collect();
                got.sort();
                if got != want_in {
                    v.push(Viol {
                        kind: "edges_in-disagrees-with-edges",
                        msg: format!("edges_in({}) lists {:?}, edges() say {:?}", b, got.iter().map(|e| (e.0, e.1)).collect::<Vec<_>>(), want_in.iter().map(|e| (e.0, e.1)).collect::<Vec<_>>()),
                    });
                }
            }
            Err(e) => v.push(Viol { kind: "edges_in-disagrees-with-edges", msg: format!("edges_in({}) of a listed block: Err {}", b, e) }),
        }
    }
    snap.entry = cfg.entry();
    snap.exit = cfg.exit();
    if let Some(e) = snap.entry {
        if !snap.has(e) {
            v.push(Viol { kind: "entry-names-missing-block", msg: format!("entry() = {} but the blocks are {:?}", e, snap.blocks.keys().collect::<Vec<_>>()) });
        }
    }
    if let Some(e) = snap.exit {
        if check_exit && !snap.has(e) {
            v.push(Viol { kind: "exit-names-missing-block", msg: format!("exit() = {} but the blocks are {:?}", e, snap.blocks.keys().collect::<Vec<_>>()) });
        }
    }
    (snap, v)
}

// ---------------------------------------------------------------------------------------------
// reference runs

#[derive(Clone, Debug, PartialEq, Eq)]
enum End {
    /// the run stopped with this fault; the flag says: it ran off the end of the exit block
    Fault(String, bool),
    OpsCap,
    StepCap,
}

#[derive(Clone, Debug)]
struct Run {
    ops: Vec<il::Operation>,
    end: End,
    state: RefState,
}

fn block_of(l: Loc) -> usize {
    match l {
        Loc::Instr(b, _) | Loc::Empty(b) | Loc::Edge(b, _) => b,
    }
}

fn fault_text(f: &Fault) -> String {
    match f {
        Fault::BadLocation(_) => "bad-location".to_string(),
        other => format!("{:?}", other),
    }
}

/// Run `view` from its entry.  `exit`: the block whose end counts as "ran to the exit".
/// `max_ops` bounds the executed operations (checked right after each one, so a fault in choosing
/// the successor of the last counted operation is not seen on either side), `max_steps` the
/// locations visited.
fn run(view: &FnView, exit: Option<usize>, state: RefState, max_ops: usize, max_steps: usize) -> Run {
    let mut m = match Machine::new(view, state.clone()) {
        Ok(m) => m,
        Err(f) => return Run { ops: Vec::new(), end: End::Fault(fault_text(&f), false), state },
    };
    let mut ops = Vec::new();
    let mut steps = 0usize;
    loop {
        if ops.len() >= max_ops {
            return Run { ops, end: End::OpsCap, state: m.state.clone() };
        }
        if steps >= max_steps {
            return Run { ops, end: End::StepCap, state: m.state.clone() };
        }
        steps += 1;
        let at = m.loc;
        let r = m.step();
        let executed = matches!(&m.last_effect, Some(e) if *e != Effect::Pass);
        if executed {
            if let Loc::Instr(b, i) = at {
                if let Some(iv) = view.instr(b, i) {
                    ops.push(iv.op.clone());
                }
            }
        }
        if let Err(f) = r {
            if ops.len() >= max_ops {
                return Run { ops, end: End::OpsCap, state: m.state.clone() };
            }
            let at_exit = matches!(f, Fault::NoEdge) && exit == Some(block_of(at)) && !matches!(at, Loc::Edge(..));
            return Run { ops, end: End::Fault(fault_text(&f), at_exit), state: m.state.clone() };
        }
    }
}

/// a's run, then (when it ran off a's exit) b's run from the state a left.
fn run_sequence(parts: &[(&FnView, Option<usize>)], state: RefState) -> Run {
    let mut ops: Vec<il::Operation> = Vec::new();
    let mut state = state;
    for (k, (view, exit)) in parts.iter().enumerate() {
        let r = run(view, *exit, state, MAX_OPS - ops.len(), MAX_STEPS);
        ops.extend(r.ops);
        let last = k + 1 == parts.len();
        match r.end {
            End::Fault(ref f, true) if !last => {
                debug_assert!(f.contains("NoEdge"));
                state = r.state;
            }
            end => return Run { ops, end, state: r.state },
        }
    }
    // no parts at all
    Run { ops, end: End::Fault("NoEdge".into(), true), state }
}

/// None = agree.  `flags`: compare "ended at the exit" too.
fn compare_runs(want: &Run, got: &Run, flags: bool) -> Option<(&'static str, String)> {
    let show = |r: &Run| -> String {
        let mut s = String::new();
        for o in r.ops.iter().take(12) {
            s.push_str(&format!("{}; ", o));
        }
        if r.ops.len() > 12 {
            s.push_str(&format!("... ({} operations) ", r.ops.len()));
        }
        s.push_str(&format!("=> {:?}", r.end));
        s
    };
    let capped = want.end == End::StepCap || got.end == End::StepCap;
    let n = if capped { want.ops.len().min(got.ops.len()) } else { want.ops.len().max(got.ops.len()) };
    for i in 0..n {
        if want.ops.get(i) != got.ops.get(i) {
            return Some((
                "executed-operations-differ",
                format!("operation #{} differs: expected {:?}, got {:?}\n  expected run: {}\n  actual run:   {}", i, want.ops.get(i).map(|o| o.to_string()), got.ops.get(i).map(|o| o.to_string()), show(want), show(got)),
            ));
        }
    }
    if capped {
        return None;
    }
    match (&want.end, &got.end) {
        (End::Fault(a, fa), End::Fault(b, fb)) => {
            if a != b {
                return Some(("run-ends-differently", format!("expected run: {}\n  actual run:   {}", show(want), show(got))));
            }
            if want.state != got.state {
                return Some(("final-state-differs", format!("expected run: {}\n  actual run:   {}", show(want), show(got))));
            }
            if flags && fa != fb {
                return Some((
                    "exit-not-where-the-run-ends",
                    format!("the expected run ends at the exit block: {}; the actual run ends at the block exit() names: {}\n  expected run: {}\n  actual run:   {}", fa, fb, show(want), show(got)),
                ));
            }
            None
        }
        (a, b) if a == b => None,
        _ => Some(("run-ends-differently", format!("expected run: {}\n  actual run:   {}", show(want), show(got)))),
    }
}

// ---------------------------------------------------------------------------------------------
// executing a history

fn push_op(block: &mut il::Block, op: &il::Operation) {
    match op {
        il::Operation::Assign { dst, src } => block.assign(dst.clone(), src.clone()),
        il::Operation::Store { index, src } => block.store(index.clone(), src.clone()),
        il::Operation::Load { dst, index } => block.load(dst.clone(), index.clone()),
        il::Operation::Branch { target } => block.branch(target.clone()),
        il::Operation::Intrinsic { intrinsic } => block.intrinsic(intrinsic.clone()),
        il::Operation::Nop { .. } => block.nop(),
    }
}

struct Exec<'a> {
    cfg: il::ControlFlowGraph,
    snap: Snap,
    states: Vec<RefState>,
    obs: &'a mut Obs,
    /// a recorded (known) finding left exit() naming a removed block; exit checks are off and
    /// append is not issued until the exit is set again
    tainted_exit: bool,
    /// a known finding other than that was met: stop the history (the graph may be unusable)
    stop: bool,
    last_ins: Option<(usize, usize)>,
    saved: (Option<usize>, Option<usize>),
    step: usize,
    /// kinds seen per operation name, for attributing blockify results
    seen: Vec<(String, &'static str)>,
    // non-triviality / fingerprint
    merges_done: usize,
    appends_nonempty: usize,
    shape: BTreeSet<&'static str>,
}

impl<'a> Exec<'a> {
    fn new(case: &Case, obs: &'a mut Obs) -> Exec<'a> {
        Exec {
            cfg: il::ControlFlowGraph::new(),
            snap: Snap::default(),
            states: case.states.iter().map(|s| build_state(&case.pool, s, case.big_endian)).collect(),
            obs,
            tainted_exit: false,
            stop: false,
            last_ins: None,
            saved: (None, None),
            step: 0,
            seen: Vec::new(),
            merges_done: 0,
            appends_nonempty: 0,
            shape: BTreeSet::new(),
        }
    }

    /// A violation: Err unless it is a recorded known finding (then counted and the search goes on).
    fn report(&mut self, op: &str, kind: &'static str, msg: String) -> Result<(), Failure> {
        let sig = format!("C15|{}|{}", op, kind);
        self.seen.push((op.to_string(), kind));
        if self.obs.known(&sig) {
            self.obs.exclude(&format!("known_finding:{}", sig));
            self.obs.class(&format!("met-known-finding:{}", kind));
            if kind == "exit-names-missing-block" {
                self.tainted_exit = true;
            } else if !kind.starts_with("err-on-valid-call") {
                self.stop = true;
            }
            return Ok(());
        }
        Err(Failure::new(sig, format!("step {} ({}): {}\n  graph now: {}", self.step, op, msg, self.snap.render())))
    }

    /// Re-read the graph and check the invariants; `op` is the call just made.
    fn look(&mut self, op: &str) -> Result<(), Failure> {
        let cfg = &self.cfg;
        let check_exit = !self.tainted_exit;
        let (snap, viols) = match guard(|| observe(cfg, check_exit)) {
            Ok(x) => x,
            Err(pi) => {
                return self.report(op, "panic-in-queries", format!("a getter panicked afterwards: {} ({}:{})", pi.msg, pi.file, pi.line));
            }
        };
        self.snap = snap;
        for v in viols {
            self.report(op, v.kind, v.msg)?;
        }
        Ok(())
    }

    fn resolve(&self, r: &Ref) -> usize {
        self.resolve_avoiding(r, None)
    }

    /// `avoid`: a block the "no in-edges" / "no out-edges" selectors do not pick (the other end of
    /// the edge being made; self-loops are generated on purpose elsewhere)
    fn resolve_avoiding(&self, r: &Ref, avoid: Option<usize>) -> usize {
        let live: Vec<usize> = self.snap.blocks.keys().copied().collect();
        let missing = |k: usize| live.last().map(|m| m + 1 + k).unwrap_or(k);
        let any = |s: u16| -> usize {
            if live.is_empty() {
                missing(0)
            } else {
                live[(s as usize * live.len()) >> 16]
            }
        };
        let among = |c: Vec<usize>, s: u16| -> usize {
            if c.is_empty() {
                any(s)
            } else {
                c[(s as usize * c.len()) >> 16]
            }
        };
        match r {
            Ref::Any(s) => any(*s),
            Ref::Last => live.last().copied().unwrap_or(missing(0)),
            Ref::NoOut(s) => {
                let c: Vec<usize> = live.iter().copied().filter(|b| self.snap.out_degree(*b) == 0).collect();
                let c: Vec<usize> = c.into_iter().filter(|b| Some(*b) != avoid).collect();
                let not_exit: Vec<usize> = c.iter().copied().filter(|b| Some(*b) != self.snap.exit).collect();
                among(if not_exit.is_empty() { c } else { not_exit }, *s)
            }
            Ref::NoIn(s) => {
                let c: Vec<usize> = live.iter().copied().filter(|b| self.snap.in_degree(*b) == 0 && Some(*b) != self.snap.entry).collect();
                let other: Vec<usize> = c.iter().copied().filter(|b| Some(*b) != avoid).collect();
                if avoid.is_some() {
                    among(other, *s)
                } else {
                    among(c, *s)
                }
            }
            Ref::Entry => self.snap.entry.unwrap_or(any(0)),
            Ref::Exit => self.snap.exit.unwrap_or(any(0)),
            Ref::InsEntry => self.last_ins.map(|x| x.0).unwrap_or(any(0)),
            Ref::InsExit => self.last_ins.map(|x| x.1).unwrap_or(any(0)),
            Ref::SavedEntry => self.saved.0.unwrap_or(any(0)),
            Ref::SavedExit => self.saved.1.unwrap_or(any(0)),
            Ref::Missing(k) => missing(*k as usize),
        }
    }

    /// Ok/Err of a call against what the documentation says for this input.
    fn expect<T>(&mut self, op: &str, what: String, valid: bool, got: &Result<T, falcon::Error>) -> Result<(), Failure> {
        match (valid, got) {
            (true, Err(e)) => self.report(op, "err-on-valid-call", format!("{} is a valid call but returned Err: {}", what, e)),
            (false, Ok(_)) => self.report(op, "ok-on-invalid-call", format!("{} is an invalid call but returned Ok", what)),
            (false, Err(_)) => {
                self.obs.class("invalid-call-rejected");
                Ok(())
            }
            _ => Ok(()),
        }
    }

    fn panic(&mut self, op: &str, what: String, pi: engine::PanicInfo) -> Result<(), Failure> {
        self.report(op, "panic", format!("{} panicked: {} ({}:{})", what, pi.msg, pi.file, pi.line))
    }

    fn note_shape(&mut self) {
        if self.snap.has_cycle() {
            self.obs.class("graph-with-cycle");
            self.shape.insert("cycle");
        }
        if self.snap.edges.keys().any(|k| k.0 == k.1) {
            self.obs.class("graph-with-self-loop");
            self.shape.insert("self-loop");
        }
        if self.snap.blocks.values().any(|b| b.is_empty()) {
            self.obs.class("graph-with-empty-block");
            self.shape.insert("empty-block");
        }
        if self.snap.edges.values().any(|c| c.is_some()) {
            self.obs.class("graph-with-conditional-edges");
            self.shape.insert("conditional");
        }
    }

    fn edge_call(&mut self, h: usize, t: usize, cond: Option<&il::Expression>) -> Result<(), Failure> {
        let name = if cond.is_some() { "conditional_edge" } else { "unconditional_edge" };
        let valid = self.snap.has(h) && self.snap.has(t) && !self.snap.edges.contains_key(&(h, t));
        if !self.snap.has(h) || !self.snap.has(t) {
            self.obs.class("edge-to-missing-block");
        } else if !valid {
            self.obs.class("duplicate-edge");
        }
        let cfg = &mut self.cfg;
        let r = guard(|| match cond {
            Some(c) => cfg.conditional_edge(h, t, c.clone()),
            None => cfg.unconditional_edge(h, t),
        });
        let what = format!("{}({}, {})", name, h, t);
        let rejected = matches!(r, Ok(Err(_)));
        let edges_before = self.snap.edges.clone();
        match r {
            Ok(r) => self.expect(name, what.clone(), valid, &r)?,
            Err(pi) => self.panic(name, what.clone(), pi)?,
        }
        self.look(name)?;
        // an edge creation that is refused created nothing: the edge set (ends and guards) is
        // the one from before the call
        if rejected && !valid && self.snap.edges != edges_before {
            let changed: Vec<String> = edges_before
                .iter()
                .filter(|(k, c)| self.snap.edges.get(k) != Some(c))
                .map(|(k, c)| format!("{}->{} was {:?}, now {:?}", k.0, k.1, c.as_ref().map(|c| c.to_string()), self.snap.edges.get(k).map(|c| c.as_ref().map(|c| c.to_string()))))
                .collect();
            self.report(name, "refused-creation-changed-the-edge-set", format!("{} was refused, yet the edge set changed: {:?}", what, changed))?;
        }
        Ok(())
    }

    fn apply(&mut self, op: &Op) -> Result<(), Failure> {
        let name = op.name();
        match op {
            Op::NewBlock { ops } => {
                let before: BTreeSet<usize> = self.snap.blocks.keys().copied().collect();
                let cfg = &mut self.cfg;
                let r = guard(|| {
                    cfg.new_block().map(|b| {
                        for o in ops {
                            push_op(b, o);
                        }
                        b.index()
                    })
                });
                match r {
                    Ok(r) => {
                        self.expect(name, "new_block()".into(), true, &r)?;
                        if let Ok(i) = r {
                            if before.contains(&i) {
                                self.report(name, "returned-existing-block", format!("new_block() returned block {} which existed before", i))?;
                            }
                        }
                    }
                    Err(pi) => self.panic(name, "new_block()".into(), pi)?,
                }
                self.look(name)
            }
            Op::AddOps { block, ops } => {
                let b = self.resolve(block);
                let valid = self.snap.has(b);
                let cfg = &mut self.cfg;
                let r = guard(|| {
                    cfg.block_mut(b).map(|blk| {
                        for o in ops {
                            push_op(blk, o);
                        }
                    })
                });
                match r {
                    Ok(r) => self.expect("block_mut", format!("block_mut({})", b), valid, &r)?,
                    Err(pi) => self.panic(name, format!("adding operations to block {}", b), pi)?,
                }
                self.look(name)
            }
            Op::Uncond { head, tail } => {
                // "edge from a block without successors to the newest block": not the newest itself
                let newest = if matches!(tail, Ref::Last) && tail != head { Some(self.resolve(tail)) } else { None };
                let h = self.resolve_avoiding(head, newest);
                let t = if tail == head { h } else { self.resolve_avoiding(tail, Some(h)) };
                self.edge_call(h, t, None)
            }
            Op::Cond { head, t1, t2, cond } => {
                let h = self.resolve(head);
                let (a, b) = (self.resolve_avoiding(t1, Some(h)), self.resolve_avoiding(t2, Some(h)));
                self.edge_call(h, a, Some(cond))?;
                if self.stop {
                    return Ok(());
                }
                let not = il::Expression::Cmpeq(Box::new(cond.clone()), Box::new(il::Expression::constant(il::const_(0, 1))));
                self.edge_call(h, b, Some(&not))
            }
            Op::SetEntry { block } | Op::SetExit { block } => {
                let b = self.resolve(block);
                let valid = self.snap.has(b);
                let is_entry = matches!(op, Op::SetEntry { .. });
                let cfg = &mut self.cfg;
                let r = guard(|| if is_entry { cfg.set_entry(b) } else { cfg.set_exit(b) });
                match r {
                    Ok(r) => {
                        self.expect(name, format!("{}({})", name, b), valid, &r)?;
                        if r.is_ok() && !is_entry {
                            self.tainted_exit = false;
                        }
                    }
                    Err(pi) => self.panic(name, format!("{}({})", name, b), pi)?,
                }
                self.look(name)
            }
            Op::Append { other } => self.do_append(other),
            Op::Insert { other } => self.do_insert(other),
            Op::Merge => self.do_merge(),
            Op::BlockAppend { dst, src } => {
                let (d, s) = (self.resolve(dst), self.resolve(src));
                if !self.snap.has(d) || !self.snap.has(s) {
                    // nothing to call: Block::append needs two blocks
                    self.obs.exclude("block-append-operand-missing");
                    return Ok(());
                }
                self.obs.class("block-append");
                let cfg = &mut self.cfg;
                let r = guard(|| {
                    let src = cfg.block(s).map(|b| b.clone());
                    match (src, cfg.block_mut(d)) {
                        (Ok(src), Ok(dst)) => {
                            dst.append(&src);
                            true
                        }
                        _ => false,
                    }
                });
                match r {
                    Ok(true) => {}
                    Ok(false) => self.report(name, "err-on-valid-call", format!("block({}) / block_mut({}) of listed blocks returned Err", s, d))?,
                    Err(pi) => self.panic(name, format!("block {} .append(block {})", d, s), pi)?,
                }
                self.look(name)
            }
            Op::RemoveInstr { block, pos } => {
                let b = self.resolve(block);
                let Some(is) = self.snap.blocks.get(&b) else {
                    self.obs.exclude("remove_instruction-block-missing");
                    return Ok(());
                };
                let idx = if *pos == 0xffff || is.is_empty() {
                    is.iter().map(|x| x.0).max().map(|m| m + 3).unwrap_or(0)
                } else {
                    is[(*pos as usize * is.len()) >> 16].0
                };
                self.obs.class("remove-instruction");
                let cfg = &mut self.cfg;
                let r = guard(|| cfg.block_mut(b).map(|blk| blk.remove_instruction(idx)));
                match r {
                    // whether a missing instruction index is an error is not part of the property
                    Ok(Ok(_)) => {}
                    Ok(Err(e)) => self.report(name, "err-on-valid-call", format!("block_mut({}) of a listed block returned Err: {}", b, e))?,
                    Err(pi) => self.panic(name, format!("block {} .remove_instruction({})", b, idx), pi)?,
                }
                self.look(name)
            }
        }
    }

    fn do_merge(&mut self) -> Result<(), Failure> {
        let before = self.snap.clone();
        self.note_shape();
        let cfg = &mut self.cfg;
        let r = guard(|| cfg.merge());
        let mut merge_failed = false;
        match r {
            Ok(Ok(())) => {}
            Ok(Err(e)) => {
                merge_failed = true;
                // look first so that the diagnosis can use the graph merge left behind
                self.look("merge")?;
                let after = &self.snap;
                let lone_self_loop = after.blocks.keys().copied().find(|b| {
                    Some(*b) != after.entry
                        && after.edges.get(&(*b, *b)) == Some(&None)
                        && after.out_degree(*b) == 1
                        && after.in_degree(*b) == 1
                });
                match lone_self_loop {
                    Some(b) => self.report(
                        "merge",
                        "err-on-valid-call|self-loop-only-block",
                        format!("merge() returned Err ({}) and stopped half-way: block {} has itself as its only successor and only predecessor and is not the entry\n  graph before: {}", e, b, before.render()),
                    )?,
                    None => self.report("merge", "err-on-valid-call", format!("merge() returned Err: {}\n  graph before: {}", e, before.render()))?,
                }
            }
            Err(pi) => self.panic("merge", "merge()".into(), pi)?,
        }
        if !merge_failed {
            self.look("merge")?;
        }
        if self.stop {
            return Ok(());
        }
        let after = self.snap.clone();
        let merged = before.blocks.len().saturating_sub(after.blocks.len());
        if merged > 0 {
            self.merges_done += 1;
            self.obs.class("merge-merged-blocks");
            self.obs.count("blocks-merged-away", merged as u64);
        }
        if let Some(e) = before.exit {
            if before.has(e) && !after.has(e) {
                self.obs.class("exit-block-merged-away");
                self.shape.insert("exit-merged");
            }
        }
        // meaning: the runs from the entry are unchanged
        let Some(entry) = before.entry else {
            self.obs.exclude("merge-without-entry:no-run-to-compare");
            return Ok(());
        };
        if after.entry != Some(entry) {
            self.report("merge", "entry-changed", format!("entry() was {} before merge and is {:?} after", entry, after.entry))?;
            return Ok(());
        }
        // the instruction sequences that can be executed from the entry (guards ignored) are the same
        if let (Some((lb, _)), Some((la, _))) = (path_language(&before, entry, PATH_OPS, PATH_CAP, None), path_language(&after, entry, PATH_OPS, PATH_CAP, None)) {
            self.obs.class("paths-compared-merge");
            if let Some(d) = first_difference(&lb, &la) {
                self.report("merge", "executable-sequences-changed", format!("{}\n  graph before: {}\n  graph after: {}", d, before.render(), after.render()))?;
                return Ok(());
            }
        } else {
            self.obs.exclude("merge-paths:too-many-paths");
        }
        let exit_b = before.clean_exit();
        let flags = exit_b.is_some() && !self.tainted_exit && after.exit.map(|e| after.has(e)).unwrap_or(false);
        let exit_a = if flags { after.exit } else { None };
        let (vb, va) = (before.view(Some(entry)), after.view(Some(entry)));
        self.obs.class("meaning-checked-merge");
        for k in 0..self.states.len() {
            let want = run(&vb, exit_b, self.states[k].clone(), MAX_OPS, MAX_STEPS);
            let got = run(&va, exit_a, self.states[k].clone(), MAX_OPS, MAX_STEPS);
            self.note_run(&want);
            if let Some((kind, msg)) = compare_runs(&want, &got, flags) {
                self.report("merge", kind, format!("state #{}: {}\n  graph before: {}", k, msg, before.render()))?;
                break;
            }
        }
        Ok(())
    }

    fn note_run(&mut self, r: &Run) {
        self.obs.count("reference-runs", 1);
        self.obs.count("operations-executed", r.ops.len() as u64);
        match &r.end {
            End::Fault(_, true) => self.obs.class("run-reaches-exit"),
            End::Fault(f, false) if f.contains("NoEdge") => self.obs.class("run-ends-at-other-sink"),
            End::Fault(f, false) if f.contains("TwoEdges") => self.obs.class("run-ends-two-edges"),
            End::Fault(..) => self.obs.class("run-ends-in-fault"),
            End::OpsCap | End::StepCap => self.obs.class("run-capped"),
        }
    }

    fn do_append(&mut self, spec: &FnSpec) -> Result<(), Failure> {
        if self.tainted_exit {
            self.obs.exclude("append-not-issued:exit-dangling-by-known-finding");
            return Ok(());
        }
        let mut other = spec.build_cfg().expect("generated graph builds");
        if spec.index.is_some() {
            // a graph that was edited before: merged, so that its block indices have holes
            let _ = guard(|| other.merge());
            self.obs.class("appended-graph-was-merged-before");
        }
        let (osnap, _) = observe(&other, true);
        let before = self.snap.clone();
        self.note_shape();
        let empty = before.blocks.is_empty();
        let valid = (empty || (before.entry.is_some() && before.exit.is_some())) && osnap.entry.is_some() && osnap.exit.is_some();
        let cfg = &mut self.cfg;
        let r = guard(|| cfg.append(&other));
        match r {
            Ok(r) => {
                self.expect("append", format!("append(graph with entry {:?} exit {:?}) onto entry {:?} exit {:?}", osnap.entry, osnap.exit, before.entry, before.exit), valid, &r)?;
                if r.is_err() {
                    return self.look("append");
                }
            }
            Err(pi) => {
                self.panic("append", "append(..)".into(), pi)?;
                return self.look("append");
            }
        }
        self.look("append")?;
        if self.stop || !valid {
            return Ok(());
        }
        let after = self.snap.clone();
        if !empty {
            self.appends_nonempty += 1;
            self.obs.class("append-onto-nonempty");
        } else {
            self.obs.class("append-onto-empty");
        }
        // entry()/exit() after an append are part of what append reports
        if after.entry.is_none() || after.exit.is_none() {
            self.report("append", "entry-or-exit-lost", format!("after a successful append entry() = {:?}, exit() = {:?}", after.entry, after.exit))?;
            return Ok(());
        }
        // the sequences that can be executed (guards ignored): those of the first graph, and every
        // path of the first graph that stops at the end of its exit block followed by the second
        // graph's.  This also covers an exit block that has out-edges of its own.
        {
            let lo = path_language(&osnap, osnap.entry.unwrap(), PATH_OPS, PATH_CAP, None);
            let la = path_language(&after, after.entry.unwrap(), PATH_OPS, PATH_CAP, None);
            let lb = if empty { Some((BTreeSet::from([Vec::new()]), BTreeSet::from([Vec::new()]))) } else { path_language(&before, before.entry.unwrap(), PATH_OPS, PATH_CAP, before.exit) };
            if let (Some((lo, _)), Some((la, _)), Some((lb, eb))) = (lo, la, lb) {
                let mut want: BTreeSet<Vec<u64>> = if empty { BTreeSet::new() } else { lb };
                for p in &eb {
                    for q in &lo {
                        let mut x = p.clone();
                        x.extend_from_slice(q);
                        x.truncate(PATH_OPS);
                        want.insert(x);
                    }
                }
                self.obs.class("paths-compared-append");
                if !empty && before.exit.map(|e| before.out_degree(e) > 0).unwrap_or(false) {
                    self.obs.class("paths-compared-append-exit-has-out-edges");
                }
                if let Some(d) = first_difference(&want, &la) {
                    self.report("append", "executable-sequences-changed", format!("{}\n  graph before: {}\n  appended: {}\n  result: {}", d, before.render(), osnap.render(), after.render()))?;
                    return Ok(());
                }
            } else {
                self.obs.exclude("append-paths:too-many-paths");
            }
        }
        // meaning: a's run, then b's
        let vo = osnap.view(osnap.entry);
        let eo = osnap.clean_exit();
        if eo.is_none() {
            // decided by the path language above; execution "until the exit" is not defined
            self.obs.exclude("append-meaning:appended-exit-has-out-edges");
            return Ok(());
        }
        let va = after.view(after.entry);
        let ea = after.clean_exit();
        let mut parts: Vec<(&FnView, Option<usize>)> = Vec::new();
        let vb;
        if !empty {
            let Some(eb) = before.clean_exit() else {
                self.obs.exclude("append-meaning:exit-block-has-out-edges");
                return Ok(());
            };
            vb = before.view(before.entry);
            parts.push((&vb, Some(eb)));
        }
        parts.push((&vo, eo));
        self.obs.class("meaning-checked-append");
        for k in 0..self.states.len() {
            let want = run_sequence(&parts, self.states[k].clone());
            let got = run(&va, ea, self.states[k].clone(), MAX_OPS, 2 * MAX_STEPS + 2);
            self.note_run(&want);
            if let Some((kind, msg)) = compare_runs(&want, &got, true) {
                self.report("append", kind, format!("state #{}: {}\n  graph before: {}\n  appended: {}", k, msg, before.render(), osnap.render()))?;
                break;
            }
        }
        Ok(())
    }

    fn do_insert(&mut self, spec: &FnSpec) -> Result<(), Failure> {
        let mut other = spec.build_cfg().expect("generated graph builds");
        if spec.index.is_some() {
            let _ = guard(|| other.merge());
        }
        let (osnap, _) = observe(&other, true);
        let before = self.snap.clone();
        let valid = osnap.entry.is_some() && osnap.exit.is_some();
        let cfg = &mut self.cfg;
        let r = guard(|| cfg.insert(&other));
        let ret = match r {
            Ok(r) => {
                self.expect("insert", format!("insert(graph with entry {:?} exit {:?})", osnap.entry, osnap.exit), valid, &r)?;
                r.ok()
            }
            Err(pi) => {
                self.panic("insert", "insert(..)".into(), pi)?;
                None
            }
        };
        self.look("insert")?;
        let Some((ie, ix)) = ret else { return Ok(()) };
        if self.stop || !valid {
            return Ok(());
        }
        self.obs.class("insert");
        self.tainted_exit = false;
        self.saved = (before.entry, before.exit);
        self.last_ins = Some((ie, ix));
        let after = self.snap.clone();
        // the reported entry and exit name existing blocks, and new ones
        for (what, i) in [("entry", ie), ("exit", ix)] {
            if !after.has(i) {
                self.report("insert", "returned-index-names-missing-block", format!("insert returned {} index {} but the blocks are {:?}", what, i, after.blocks.keys().collect::<Vec<_>>()))?;
                return Ok(());
            }
            if before.has(i) {
                self.report("insert", "returned-index-names-old-block", format!("insert returned {} index {}, a block that existed before the insertion", what, i))?;
                return Ok(());
            }
        }
        // "returns the entry and exit indices for inserted graph": running from the returned entry
        // is running the inserted graph, and it ends at the returned exit
        // the instruction sequences that can be executed from the returned entry are those of the
        // inserted graph (the inserted blocks are not connected to anything else yet)
        if let (Some((lo, _)), Some((la, _))) = (path_language(&osnap, osnap.entry.unwrap(), PATH_OPS, PATH_CAP, None), path_language(&after, ie, PATH_OPS, PATH_CAP, None)) {
            self.obs.class("paths-compared-insert");
            if let Some(d) = first_difference(&lo, &la) {
                self.report("insert", "executable-sequences-changed", format!("{}\n  inserted: {}\n  result: {}", d, osnap.render(), after.render()))?;
                return Ok(());
            }
        }
        let vo = osnap.view(osnap.entry);
        let eo = osnap.clean_exit();
        if eo.is_none() {
            self.obs.exclude("insert-meaning:inserted-exit-has-out-edges");
            return Ok(());
        }
        let va = after.view(Some(ie));
        for k in 0..self.states.len().min(3) {
            let want = run(&vo, eo, self.states[k].clone(), MAX_OPS, MAX_STEPS);
            let got = run(&va, Some(ix), self.states[k].clone(), MAX_OPS, MAX_STEPS);
            if let Some((kind, msg)) = compare_runs(&want, &got, true) {
                self.report("insert", kind, format!("state #{}, run from the returned entry {} (returned exit {}): {}\n  inserted: {}", k, ie, ix, msg, osnap.render()))?;
                break;
            }
        }
        Ok(())
    }
}

fn check_history(case: &Case, ops: &[Op], obs: &mut Obs) -> Result<(), Failure> {
    let mut x = Exec::new(case, obs);
    x.look("new")?;
    let mut kinds: BTreeSet<&'static str> = BTreeSet::new();
    for (i, op) in ops.iter().enumerate() {
        x.step = i;
        kinds.insert(op.name());
        x.apply(op)?;
        if x.stop {
            break;
        }
    }
    if x.merges_done > 0 || x.appends_nonempty > 0 {
        let fp = (
            kinds.iter().copied().collect::<Vec<_>>(),
            x.shape.iter().copied().collect::<Vec<_>>(),
            x.merges_done.min(3),
            x.appends_nonempty.min(3),
            x.snap.blocks.len().min(12),
            x.snap.edges.len().min(12),
        );
        x.obs.nontrivial(&fp);
        x.obs.class("nontrivial");
    }
    x.obs.class("history");
    Ok(())
}

/// blockify: the harness first replays what blockify is (new_block, set_entry, set_exit, one
/// append per instruction, merge) through the public API with the checks after every call, so a
/// defect carries the signature of the call that introduces it; then it calls the real thing.
fn check_blockify(case: &Case, instrs: &[FnSpec], obs: &mut Obs) -> Result<(), Failure> {
    obs.class("blockify");
    if instrs.len() >= 2 {
        obs.class("blockify-multi-instruction");
    }
    let states: Vec<RefState> = case.states.iter().map(|s| build_state(&case.pool, s, case.big_endian)).collect();
    // 1. the real thing; what is wrong with its result is collected, not yet reported
    let real = blockify_violations(instrs, &states, obs);
    let real_note = match real.first() {
        Some((_, m)) => format!("\n  BlockTranslationResult::blockify on the same graphs: {}", m),
        None => String::new(),
    };
    // 2. the same calls one by one
    let mut steps = vec![Op::NewBlock { ops: vec![] }, Op::SetEntry { block: Ref::Last }, Op::SetExit { block: Ref::Last }];
    steps.extend(instrs.iter().map(|s| Op::Append { other: s.clone() }));
    steps.push(Op::Merge);
    let mut x = Exec::new(case, obs);
    x.look("new")?;
    for (i, op) in steps.iter().enumerate() {
        x.step = i;
        if let Err(mut f) = x.apply(op) {
            f.msg.push_str(&real_note);
            return Err(f);
        }
        if x.stop {
            return Ok(());
        }
    }
    let seen = x.seen.clone();
    let nontrivial = x.merges_done > 0;
    let shape: Vec<&'static str> = x.shape.iter().copied().collect();
    drop(x);
    // 3. a violation already met while replaying the steps has that step's signature
    for (kind, msg) in real {
        let sig = match seen.iter().find(|(_, k)| *k == kind || (kind == "err-on-valid-call" && k.starts_with("err-on-valid-call"))) {
            Some((op, k)) => format!("C15|{}|{}", op, k),
            None => format!("C15|blockify|{}", kind),
        };
        if obs.known(&sig) {
            obs.exclude(&format!("known_finding:{}", sig));
            continue;
        }
        return Err(Failure::new(sig, format!("blockify of {} instruction graphs: {}", instrs.len(), msg)));
    }
    if nontrivial {
        obs.nontrivial(&("blockify", instrs.len(), instrs.iter().map(|s| (s.blocks.len(), s.edges.len())).collect::<Vec<_>>(), shape));
        obs.class("nontrivial");
    }
    Ok(())
}

/// Call blockify and return what is wrong with its result as (kind, message).
fn blockify_violations(instrs: &[FnSpec], states: &[RefState], obs: &mut Obs) -> Vec<(&'static str, String)> {
    let graphs: Vec<(u64, il::ControlFlowGraph)> = instrs
        .iter()
        .enumerate()
        .map(|(i, s)| (0x4000 + 4 * i as u64, s.build_cfg().expect("generated graph builds")))
        .collect();
    let osnaps: Vec<Snap> = graphs.iter().map(|g| observe(&g.1, true).0).collect();
    let btr = BlockTranslationResult::new(graphs, 0x4000, 4 * instrs.len(), Vec::new());
    let mut out: Vec<(&'static str, String)> = Vec::new();
    let cfg = match guard(|| btr.blockify()) {
        Ok(Ok(c)) => c,
        Ok(Err(e)) => return vec![("err-on-valid-call", format!("returned Err: {}", e))],
        Err(pi) => return vec![("panic", format!("panicked: {} ({}:{})", pi.msg, pi.file, pi.line))],
    };
    let (snap, viols) = match guard(|| observe(&cfg, true)) {
        Ok(x) => x,
        Err(pi) => return vec![("panic-in-queries", format!("a getter panicked on the result: {}", pi.msg))],
    };
    let mut exit_dangling = false;
    let mut unusable = false;
    for v in viols {
        if v.kind == "exit-names-missing-block" {
            exit_dangling = true;
        } else {
            unusable = true;
        }
        out.push((v.kind, format!("{}\n  result: {}", v.msg, snap.render())));
    }
    if unusable {
        return out;
    }
    if snap.entry.is_none() || snap.exit.is_none() {
        out.push(("entry-or-exit-lost", format!("result has entry() = {:?}, exit() = {:?}", snap.entry, snap.exit)));
        return out;
    }
    // meaning: the instructions one after the other
    let views: Vec<FnView> = osnaps.iter().map(|s| s.view(s.entry)).collect();
    let parts: Vec<(&FnView, Option<usize>)> = views.iter().zip(osnaps.iter()).map(|(v, s)| (v, s.clean_exit())).collect();
    let va = snap.view(snap.entry);
    let flags = !exit_dangling;
    let ea = if flags { snap.clean_exit() } else { None };
    obs.class("meaning-checked-blockify");
    for (k, st) in states.iter().enumerate() {
        let want = run_sequence(&parts, st.clone());
        let got = run(&va, ea, st.clone(), MAX_OPS, (instrs.len() + 1) * (MAX_STEPS + 2));
        if let Some((kind, msg)) = compare_runs(&want, &got, flags) {
            out.push((kind, format!("state #{}: {}\n  result: {}", k, msg, snap.render())));
            break;
        }
    }
    out
}

fn check(case: &Case, obs: &mut Obs) -> Result<(), Failure> {
    let r = match &case.body {
        Body::History(ops) => check_history(case, ops, obs),
        Body::Blockify(instrs) => check_blockify(case, instrs, obs),
    };
    if r.is_ok() && obs.want_sample() {
        obs.sample(render(case));
    }
    r
}

// ---------------------------------------------------------------------------------------------

fn render_ref(r: &Ref) -> String {
    match r {
        Ref::Any(s) => format!("any#{}", s),
        Ref::Last => "last".into(),
        Ref::NoOut(s) => format!("no-out#{}", s),
        Ref::NoIn(s) => format!("no-in#{}", s),
        Ref::Entry => "entry".into(),
        Ref::Exit => "exit".into(),
        Ref::InsEntry => "inserted-entry".into(),
        Ref::InsExit => "inserted-exit".into(),
        Ref::SavedEntry => "entry-before-insert".into(),
        Ref::SavedExit => "exit-before-insert".into(),
        Ref::Missing(k) => format!("missing+{}", k),
    }
}

fn render_ops(ops: &[il::Operation]) -> String {
    ops.iter().map(|o| o.to_string()).collect::<Vec<_>>().join("; ")
}

fn render_spec(s: &FnSpec) -> String {
    let mut out = format!("graph(entry={:?} exit={:?}", s.entry, s.exit);
    for (i, b) in s.blocks.iter().enumerate() {
        out.push_str(&format!(" b{}[{}]", i, b.iter().map(|o| o.op.to_string()).collect::<Vec<_>>().join("; ")));
    }
    for (h, t, c) in &s.edges {
        match c {
            Some(c) => out.push_str(&format!(" {}->{} if {}", h, t, c)),
            None => out.push_str(&format!(" {}->{}", h, t)),
        }
    }
    out.push(')');
    out
}

fn render(c: &Case) -> String {
    let mut s = format!(
        "scalars {:?}, {} endian, {} states\n",
        c.pool.scalars.iter().map(|x| format!("{}:{}", x.0, x.1)).collect::<Vec<_>>(),
        if c.big_endian { "big" } else { "little" },
        c.states.len()
    );
    match &c.body {
        Body::Blockify(v) => {
            s.push_str("blockify of:\n");
            for g in v {
                s.push_str(&format!("  {}\n", render_spec(g)));
            }
        }
        Body::History(ops) => {
            for (i, op) in ops.iter().enumerate() {
                let line = match op {
                    Op::NewBlock { ops } => format!("new_block [{}]", render_ops(ops)),
                    Op::AddOps { block, ops } => format!("block({}) += [{}]", render_ref(block), render_ops(ops)),
                    Op::Uncond { head, tail } => format!("unconditional_edge({}, {})", render_ref(head), render_ref(tail)),
                    Op::Cond { head, t1, t2, cond } => format!("conditional_edge({}, {}, {}) + complement to {}", render_ref(head), render_ref(t1), cond, render_ref(t2)),
                    Op::SetEntry { block } => format!("set_entry({})", render_ref(block)),
                    Op::SetExit { block } => format!("set_exit({})", render_ref(block)),
                    Op::Append { other } => format!("append({})", render_spec(other)),
                    Op::Insert { other } => format!("insert({})", render_spec(other)),
                    Op::Merge => "merge()".into(),
                    Op::BlockAppend { dst, src } => format!("block({}).append(block({}))", render_ref(dst), render_ref(src)),
                    Op::RemoveInstr { block, pos } => format!("block({}).remove_instruction(#{})", render_ref(block), pos),
                };
                s.push_str(&format!("  {:2}: {}\n", i, line));
            }
        }
    }
    s
}

fn simplify(c: &Case) -> Vec<Case> {
    let mut v = Vec::new();
    // fewer states
    if c.states.len() > 1 {
        for i in 0..c.states.len() {
            let mut d = c.clone();
            d.states.remove(i);
            v.push(d);
        }
    }
    let strip = |s: &FnSpec| -> Vec<FnSpec> {
        let mut out = Vec::new();
        for (bi, b) in s.blocks.iter().enumerate() {
            for k in 0..b.len() {
                let mut d = s.clone();
                d.blocks[bi].remove(k);
                out.push(d);
            }
        }
        for k in 0..s.edges.len() {
            let mut d = s.clone();
            d.edges.remove(k);
            // keep the exit without out-edges and guards exclusive: only drop unconditional edges
            if s.edges[k].2.is_none() {
                out.push(d);
            }
        }
        out
    };
    match &c.body {
        Body::History(ops) => {
            for i in 0..ops.len() {
                let mut d = ops.clone();
                d.remove(i);
                v.push(Case { body: Body::History(d), ..c.clone() });
            }
            for i in 0..ops.len() {
                match &ops[i] {
                    Op::NewBlock { ops: o } | Op::AddOps { ops: o, .. } if !o.is_empty() => {
                        for k in 0..o.len() {
                            let mut d = ops.clone();
                            match &mut d[i] {
                                Op::NewBlock { ops: o } | Op::AddOps { ops: o, .. } => {
                                    o.remove(k);
                                }
                                _ => {}
                            }
                            v.push(Case { body: Body::History(d), ..c.clone() });
                        }
                    }
                    Op::Append { other } | Op::Insert { other } => {
                        for s in strip(other) {
                            let mut d = ops.clone();
                            d[i] = match &ops[i] {
                                Op::Append { .. } => Op::Append { other: s },
                                _ => Op::Insert { other: s },
                            };
                            v.push(Case { body: Body::History(d), ..c.clone() });
                        }
                    }
                    _ => {}
                }
            }
        }
        Body::Blockify(instrs) => {
            for i in 0..instrs.len() {
                let mut d = instrs.clone();
                d.remove(i);
                v.push(Case { body: Body::Blockify(d), ..c.clone() });
            }
            for i in 0..instrs.len() {
                for s in strip(&instrs[i]) {
                    let mut d = instrs.clone();
                    d[i] = s;
                    v.push(Case { body: Body::Blockify(d), ..c.clone() });
                }
            }
        }
    }
    v
}

/// libFuzzer entry: the input bytes are the entropy tape (little-endian u32 words); same
/// generator, same oracle as the proptest tiers.
#[allow(dead_code)]
pub fn fuzz_bytes(data: &[u8]) {
    let tape = fv::tape::words_from_bytes(data, 1400);
    let case = decode(&mut Tape::new(&tape));
    engine::fuzz_one("C15", &case, &render, &check);
}

#[allow(dead_code)]
fn main() -> std::process::ExitCode {
    let mut spec = Spec::new(
        "C15",
        "histories of 1-40 editing calls on one ControlFlowGraph (new_block, operations added to a block, unconditional_edge, conditional_edge with its complement, set_entry, set_exit, append(other), insert(other) with re-wiring, merge, Block::append, remove_instruction, and their invalid forms; block operands are selectors resolved on the live graph) and blockify of 0-5 generated per-instruction graphs; the invariants of the property are evaluated after every call, and merge / append / insert / blockify are compared with reference runs (fv::refil::Machine, 8 states) of the graph(s) before, and merge / append additionally by the set of instruction sequences of at most 10 operations that can be executed from the entry when guards are ignored (this also decides append onto a graph whose exit block has out-edges); non-trivial = a merge that removed at least one block or an append onto a non-empty graph; distinct = (set of call kinds, graph shape classes {cycle, self-loop, empty block, conditional edges, exit merged away}, capped counts of merges / appends / final blocks / final edges)",
        Box::new(|_t: Tier| from_tape(1400, decode)),
        |t| t.pick(80_000, 3_000_000),
        check,
    );
    spec.render = render;
    spec.simplify = Some(simplify);
    spec.assumptions = vec![
        "meaning is compared only for runs from entry(); for append and for 'the run ends at the exit' only when the exit block has no out-edges (what append documents and conformant translators produce)".into(),
        "runs are bounded (48 executed operations, 700 locations); a run cut by the location bound is compared on the common prefix only".into(),
        "operations are Assign/Store/Load/Nop; Branch and Intrinsic are not generated (they do not interact with graph editing)".into(),
        "whether remove_instruction of a missing index is an error is not asserted".into(),
    ];
    spec.floors = vec![
        ("nontrivial", 0.50),
        ("graph-with-cycle", 0.30),
        ("graph-with-self-loop", 0.15),
        ("graph-with-empty-block", 0.30),
        ("exit-block-merged-away", 0.10),
        ("merge-merged-blocks", 0.30),
        ("append-onto-nonempty", 0.30),
        ("meaning-checked-merge", 0.40),
        ("meaning-checked-append", 0.30),
        ("paths-compared-merge", 0.40),
        ("paths-compared-append", 0.35),
        ("paths-compared-append-exit-has-out-edges", 0.12),
        ("insert", 0.10),
        ("invalid-call-rejected", 0.20),
        ("duplicate-edge", 0.15),
        ("blockify-multi-instruction", 0.05),
        ("run-reaches-exit", 0.30),
    ];
    spec.crash_sig = |c: &Case| match &c.body {
        Body::History(_) => "history".to_string(),
        Body::Blockify(_) => "blockify".to_string(),
    };
    engine::main(spec)
}
