//! Harness-side ELF writer for C19.  An `Image` is a *model* of a well-formed ELF file (segments,
//! symbol tables, dynamic section, relocations, non-load program headers); `build` lays it out and
//! emits the bytes.  Everything the oracle needs (segment addresses/sizes/flags, final symbol values,
//! relocation offsets) is returned next to the bytes, computed from the model and not by parsing.
//!
//! All cross references inside the model are resolved modulo the size of what they point into, so
//! removing a segment / symbol / relocation from a model still gives a well-formed image (needed
//! for shrinking).

use serde::{Deserialize, Serialize};

pub const PAGE: u64 = 0x1000;

pub const EM_386: u16 = 3;
pub const EM_MIPS: u16 = 8;
pub const EM_PPC: u16 = 20;
pub const EM_X86_64: u16 = 62;
pub const EM_AARCH64: u16 = 183;

pub const PF_X: u32 = 1;
pub const PF_W: u32 = 2;
pub const PF_R: u32 = 4;

pub const PT_NULL: u32 = 0;
pub const PT_LOAD: u32 = 1;
pub const PT_DYNAMIC: u32 = 2;
pub const PT_INTERP: u32 = 3;
pub const PT_NOTE: u32 = 4;
pub const PT_PHDR: u32 = 6;
pub const PT_TLS: u32 = 7;
pub const PT_GNU_EH_FRAME: u32 = 0x6474_e550;
pub const PT_GNU_STACK: u32 = 0x6474_e551;
pub const PT_GNU_RELRO: u32 = 0x6474_e552;
pub const PT_MIPS_REGINFO: u32 = 0x7000_0000;

pub const STT_NOTYPE: u8 = 0;
pub const STT_OBJECT: u8 = 1;
pub const STT_FUNC: u8 = 2;
pub const STT_SECTION: u8 = 3;
pub const STT_FILE: u8 = 4;
pub const STB_LOCAL: u8 = 0;
pub const STB_GLOBAL: u8 = 1;
pub const STB_WEAK: u8 = 2;

pub const SHN_ABS: u16 = 0xfff1;

/// An address inside the image, given symbolically.
#[derive(Clone, Debug, Serialize, Deserialize, PartialEq, Eq, Hash)]
pub enum Addr {
    /// the value 0
    Zero,
    /// inside segment `seg % nsegs`: `pos` bytes after the start of its free area (or, `from_end`,
    /// `pos` bytes before the end of its memory image; pos 0 = one past the last byte)
    In { seg: u32, pos: u32, from_end: bool },
    /// a literal value (truncated to the address size)
    Raw(u64),
}

#[derive(Clone, Copy, Debug, Serialize, Deserialize, PartialEq, Eq, Hash)]
pub enum Shn {
    Undef,
    Sect,
    Abs,
}

#[derive(Clone, Debug, Serialize, Deserialize)]
pub struct Sym {
    pub name: String,
    pub typ: u8,
    pub bind: u8,
    pub other: u8,
    pub size: u32,
    pub shn: Shn,
    pub addr: Addr,
}

#[derive(Clone, Debug, Serialize, Deserialize)]
pub struct Seg {
    /// PF_* bits
    pub flags: u32,
    /// unmapped pages between the previous segment's last page and this segment's first page
    pub gap_pages: u32,
    /// start the segment's file contents at a page multiple (then its vaddr is page aligned)
    pub pad_to_page: bool,
    /// free file-backed bytes after the tables placed in this segment
    pub filler: u32,
    /// memsz - filesz
    pub bss: u32,
    pub seed: u8,
}

#[derive(Clone, Copy, Debug, Serialize, Deserialize, PartialEq, Eq, Hash, PartialOrd, Ord)]
pub enum RelKind {
    JmpSlot,
    GlobDat,
    Abs,
    Relative,
}

#[derive(Clone, Debug, Serialize, Deserialize)]
pub struct Reloc {
    pub kind: RelKind,
    /// index into `Dynamic::syms` (modulo its length); ignored for `Relative`
    pub sym: u32,
    /// where the relocated word lives: a free 4/8-byte slot in the free area of segment `seg`
    pub seg: u32,
    pub slot: u32,
    /// for `Relative`: the link-time address stored in place (REL) / in r_addend (RELA)
    pub addend: Addr,
}

#[derive(Clone, Debug, Serialize, Deserialize)]
pub struct Dynamic {
    pub syms: Vec<Sym>,
    pub needed: Vec<String>,
    pub soname: Option<String>,
    pub plt: Vec<Reloc>,
    pub rel: Vec<Reloc>,
    /// segment holding .hash/.dynsym/.dynstr/.rel*
    pub meta_seg: u32,
    /// segment holding .dynamic/.got
    pub dyn_seg: u32,
    /// also emit DT_DEBUG / DT_FLAGS / DT_SYMENT-like informational tags
    pub extra_tags: bool,
    /// MIPS o32 only: the .got is a real MIPS GOT (two reserved entries, `locals`, then one entry
    /// per dynamic symbol from DT_MIPS_GOTSYM on) described by DT_MIPS_LOCAL_GOTNO / GOTSYM /
    /// SYMTABNO
    #[serde(default)]
    pub mips_got: Option<MipsGot>,
    /// the DT_NEEDED entries are spread among the other tags of .dynamic instead of leading it
    /// (the ELF specification gives the relative order of DT_NEEDED entries a meaning, not their
    /// position among the other tags)
    #[serde(default)]
    pub needed_spread: bool,
}

#[derive(Clone, Debug, Serialize, Deserialize)]
pub struct MipsGot {
    /// link-time addresses held by the local entries
    pub locals: Vec<Addr>,
    /// how many of the non-local dynamic symbols have no GOT entry
    pub skip_globals: u32,
}

#[derive(Clone, Debug)]
pub struct GotL {
    pub addr: u64,
    pub local_gotno: u64,
    /// index of the first dynamic symbol with a GOT entry
    pub gotsym: usize,
    /// initial contents, one 32-bit word per entry
    pub init: Vec<u32>,
}

/// A non-load program header pointing into a segment.
#[derive(Clone, Debug, Serialize, Deserialize)]
pub struct Extra {
    pub ptype: u32,
    pub flags: u32,
    pub seg: u32,
    pub pos: u32,
    pub len: u32,
    pub mem_extra: u32,
}

#[derive(Clone, Debug, Serialize, Deserialize)]
pub struct Image {
    pub class64: bool,
    pub big: bool,
    pub machine: u16,
    /// ET_EXEC (2) or ET_DYN (3)
    pub etype: u16,
    /// page number of the first segment
    pub first_page: u64,
    /// first segment starts at file offset 0 (contains the ELF header and program headers)
    pub hdr_in_first: bool,
    pub segs: Vec<Seg>,
    pub symtab: Option<Vec<Sym>>,
    pub dynamic: Option<Dynamic>,
    pub entry: Addr,
    pub extras: Vec<Extra>,
    pub phdr: bool,
    pub interp: bool,
    pub gnu_stack: Option<u32>,
    /// emit section headers (.symtab can only be found through them)
    pub shdrs: bool,
    /// p_paddr = p_vaddr + paddr_delta
    pub paddr_delta: u64,
}

#[derive(Clone, Debug)]
pub struct SegL {
    pub vaddr: u64,
    pub offset: u64,
    pub filesz: u64,
    pub memsz: u64,
    pub flags: u32,
    /// start (relative to the segment) and length of the file-backed free area
    pub fill_start: u64,
    pub fill_len: u64,
}

#[derive(Clone, Debug)]
pub struct SymL {
    pub name: String,
    pub value: u64,
    pub shndx: u16,
    pub typ: u8,
    pub bind: u8,
}

#[derive(Clone, Debug)]
pub struct RelL {
    pub kind: RelKind,
    pub r_offset: u64,
    /// index into the final .dynsym
    pub sym: usize,
    pub rtype: u32,
    /// in-place / r_addend value
    pub addend: u64,
    /// width of the relocated word in bytes
    #[allow(dead_code)]
    pub width: u64,
}

#[derive(Clone, Debug)]
pub struct PhL {
    pub ptype: u32,
    pub flags: u32,
    pub offset: u64,
    pub vaddr: u64,
    pub filesz: u64,
    pub memsz: u64,
}

#[derive(Clone, Debug)]
pub struct Built {
    pub bytes: Vec<u8>,
    pub segs: Vec<SegL>,
    /// final .symtab (index 0 = null symbol); empty when there is none
    pub symtab: Vec<SymL>,
    /// final .dynsym (index 0 = null symbol); empty when there is no dynamic section
    pub dynsyms: Vec<SymL>,
    pub plt: Vec<RelL>,
    pub rel: Vec<RelL>,
    pub entry: u64,
    pub phdrs: Vec<PhL>,
    #[allow(dead_code)]
    pub addr_bits: u32,
    pub got: Option<GotL>,
}

impl Built {
    /// one past the highest mapped address
    pub fn image_end(&self) -> u64 {
        self.segs.iter().map(|s| s.vaddr + s.memsz).max().unwrap_or(0)
    }
}

struct Enc {
    big: bool,
    c64: bool,
}

impl Enc {
    fn u16(&self, b: &mut Vec<u8>, v: u16) {
        if self.big {
            b.extend_from_slice(&v.to_be_bytes())
        } else {
            b.extend_from_slice(&v.to_le_bytes())
        }
    }
    fn u32(&self, b: &mut Vec<u8>, v: u32) {
        if self.big {
            b.extend_from_slice(&v.to_be_bytes())
        } else {
            b.extend_from_slice(&v.to_le_bytes())
        }
    }
    fn u64(&self, b: &mut Vec<u8>, v: u64) {
        if self.big {
            b.extend_from_slice(&v.to_be_bytes())
        } else {
            b.extend_from_slice(&v.to_le_bytes())
        }
    }
    /// an address-sized word
    fn word(&self, b: &mut Vec<u8>, v: u64) {
        if self.c64 {
            self.u64(b, v)
        } else {
            self.u32(b, v as u32)
        }
    }
}

/// The value of a symbolic address given the laid-out segments.
pub fn resolve_addr(segs: &[SegL], class64: bool, a: &Addr) -> u64 {
    match a {
        Addr::Zero => 0,
        Addr::Raw(v) => {
            if class64 {
                v & ((1 << 62) - 1)
            } else {
                v & 0xffff_ffff
            }
        }
        Addr::In { seg, pos, from_end } => {
            let s = &segs[*seg as usize % segs.len()];
            let span = s.memsz - s.fill_start;
            let p = *pos as u64 % (span + 1);
            if *from_end {
                s.vaddr + s.memsz - p
            } else {
                s.vaddr + s.fill_start + p
            }
        }
    }
}

fn align(v: u64, a: u64) -> u64 {
    v.div_ceil(a) * a
}

fn elf_hash(name: &str) -> u32 {
    let mut h: u32 = 0;
    for c in name.bytes() {
        h = (h << 4).wrapping_add(c as u32);
        let g = h & 0xf000_0000;
        if g != 0 {
            h ^= g >> 24;
        }
        h &= !g;
    }
    h
}

struct Strtab {
    bytes: Vec<u8>,
}

impl Strtab {
    fn new() -> Strtab {
        Strtab { bytes: vec![0] }
    }
    fn add(&mut self, s: &str) -> u32 {
        if s.is_empty() {
            return 0;
        }
        // reuse an identical earlier entry
        let needle: Vec<u8> = s.bytes().chain(std::iter::once(0)).collect();
        if let Some(p) = self.bytes.windows(needle.len()).position(|w| w == needle.as_slice()) {
            // must start right after a NUL (or at a string start) to be an entry; suffix sharing is
            // legal ELF, so any position is fine
            return p as u32;
        }
        let p = self.bytes.len() as u32;
        self.bytes.extend_from_slice(&needle);
        p
    }
}

/// relocation type numbers per machine
pub fn rel_type(machine: u16, kind: RelKind) -> u32 {
    match (machine, kind) {
        (EM_386, RelKind::JmpSlot) => 7,
        (EM_386, RelKind::GlobDat) => 6,
        (EM_386, RelKind::Abs) => 1,
        (EM_386, RelKind::Relative) => 8,
        (EM_X86_64, RelKind::JmpSlot) => 7,
        (EM_X86_64, RelKind::GlobDat) => 6,
        (EM_X86_64, RelKind::Abs) => 1,
        (EM_X86_64, RelKind::Relative) => 8,
        (EM_MIPS, RelKind::JmpSlot) => 127,
        (EM_MIPS, RelKind::GlobDat) => 51,
        (EM_MIPS, _) => 3,
        (EM_PPC, RelKind::JmpSlot) => 21,
        (EM_PPC, RelKind::GlobDat) => 20,
        (EM_PPC, RelKind::Abs) => 1,
        (EM_PPC, RelKind::Relative) => 22,
        (EM_AARCH64, RelKind::JmpSlot) => 1026,
        (EM_AARCH64, RelKind::GlobDat) => 1025,
        (EM_AARCH64, RelKind::Abs) => 257,
        (EM_AARCH64, RelKind::Relative) => 1027,
        _ => 0,
    }
}

pub fn uses_rela(machine: u16) -> bool {
    matches!(machine, EM_X86_64 | EM_PPC | EM_AARCH64)
}

#[derive(Clone, Copy, PartialEq, Eq, Debug)]
enum Ck {
    Interp,
    Hash,
    Dynsym,
    Dynstr,
    RelDyn,
    RelPlt,
    Dynamic,
    Got,
    Fill,
}

#[derive(Clone, Copy, Debug)]
struct Chunk {
    kind: Ck,
    seg: usize,
    off: u64,
    size: u64,
}

const INTERP: &[u8] = b"/lib/ld-verif.so.1\0";

/// Lay the model out and emit the file.  `None` when the model is not expressible (no segments,
/// more relocations than free slots, a value that does not fit the address size).
pub fn build(img: &Image) -> Option<Built> {
    let n = img.segs.len();
    if n == 0 || n > 4 {
        return None;
    }
    let enc = Enc { big: img.big, c64: img.class64 };
    let w: u64 = if img.class64 { 8 } else { 4 };
    let (ehsize, phent, shent, symsz): (u64, u64, u64, u64) = if img.class64 { (64, 56, 64, 24) } else { (52, 32, 40, 16) };
    let rela = uses_rela(img.machine);
    let relsz = if rela { 3 * w } else { 2 * w };
    let limit: u64 = if img.class64 { 1 << 62 } else { 1 << 32 };

    // ---- symbol tables: locals first (stable), remember the permutation -------------------------
    fn order(syms: &[Sym]) -> Vec<usize> {
        let mut idx: Vec<usize> = (0..syms.len()).filter(|i| syms[*i].bind == STB_LOCAL).collect();
        idx.extend((0..syms.len()).filter(|i| syms[*i].bind != STB_LOCAL));
        idx
    }
    let dynamic = img.dynamic.as_ref();
    let dyn_order: Vec<usize> = dynamic.map(|d| order(&d.syms)).unwrap_or_default();
    // model index -> final index
    let mut dyn_final = vec![0usize; dyn_order.len()];
    for (fin, m) in dyn_order.iter().enumerate() {
        dyn_final[*m] = fin + 1;
    }
    let symtab_model: Option<&Vec<Sym>> = if img.shdrs { img.symtab.as_ref() } else { None };
    let sym_order: Vec<usize> = symtab_model.map(|s| order(s)).unwrap_or_default();

    let mut dynstr = Strtab::new();
    let mut dyn_names: Vec<u32> = Vec::new();
    let mut needed_off: Vec<u32> = Vec::new();
    let mut soname_off = None;
    if let Some(d) = dynamic {
        for m in &dyn_order {
            dyn_names.push(dynstr.add(&d.syms[*m].name));
        }
        for nd in &d.needed {
            needed_off.push(dynstr.add(nd));
        }
        if let Some(s) = &d.soname {
            soname_off = Some(dynstr.add(s));
        }
    }
    let mut strtab = Strtab::new();
    let mut sym_names: Vec<u32> = Vec::new();
    if let Some(s) = symtab_model {
        for m in &sym_order {
            sym_names.push(strtab.add(&s[*m].name));
        }
    }

    // ---- program header list (types only; values later) -----------------------------------------
    let meta_seg = dynamic.map(|d| d.meta_seg as usize % n);
    let dyn_seg = dynamic.map(|d| d.dyn_seg as usize % n);
    let has_phdr = img.phdr && img.hdr_in_first;
    #[derive(Clone, Copy)]
    enum Ph {
        Phdr,
        Interp,
        Load(usize),
        Dynamic,
        Extra(usize),
        Stack,
    }
    let mut phs: Vec<Ph> = Vec::new();
    if has_phdr {
        phs.push(Ph::Phdr);
    }
    if img.interp {
        phs.push(Ph::Interp);
    }
    for i in 0..n {
        phs.push(Ph::Load(i));
        if dyn_seg == Some(i) {
            phs.push(Ph::Dynamic);
        }
        for (k, e) in img.extras.iter().enumerate() {
            if e.seg as usize % n == i {
                phs.push(Ph::Extra(k));
            }
        }
    }
    if img.gnu_stack.is_some() {
        phs.push(Ph::Stack);
    }
    let phnum = phs.len() as u64;

    // ---- dynamic tags (count first) -------------------------------------------------------------
    let ndyn = dyn_order.len() as u64 + 1;
    let nbucket: u64 = 1 + (ndyn % 3);
    let hash_size = (2 + nbucket + ndyn) * 4;
    let nplt = dynamic.map(|d| d.plt.len()).unwrap_or(0) as u64;
    let nrel = dynamic.map(|d| d.rel.len()).unwrap_or(0) as u64;
    let mut ntags: u64 = 0;
    if let Some(d) = dynamic {
        ntags = d.needed.len() as u64 + d.soname.is_some() as u64 + 5 /*hash strtab symtab strsz syment*/ + 1 /*pltgot*/ + 1 /*null*/;
        if nplt > 0 {
            ntags += 3;
        }
        if nrel > 0 {
            ntags += 3;
        }
        if d.extra_tags {
            ntags += 2;
        }
    }
    let first_global_dyn = dynamic.map(|d| 1 + d.syms.iter().filter(|s| s.bind == STB_LOCAL).count()).unwrap_or(0) as u32;
    let mips_got = dynamic.and_then(|d| d.mips_got.as_ref()).filter(|_| img.machine == EM_MIPS && !img.class64);
    // (local_gotno, gotsym)
    let mips_shape: Option<(u64, u64)> = mips_got.map(|g| {
        let nglob = ndyn - first_global_dyn as u64;
        (2 + g.locals.len() as u64, first_global_dyn as u64 + (g.skip_globals as u64).min(nglob))
    });
    if mips_shape.is_some() {
        ntags += 6;
    }
    let got_size = match mips_shape {
        Some((local_gotno, gotsym)) => (local_gotno + ndyn - gotsym) * 4,
        None if dynamic.is_some() => 3 * w + nplt * w,
        None => 0,
    };

    // ---- file layout ----------------------------------------------------------------------------
    let mut pos = ehsize + phnum * phent;
    let mut chunks: Vec<Chunk> = Vec::new();
    let mut segs: Vec<SegL> = Vec::new();
    let mut next_free_page = img.first_page;
    for (i, s) in img.segs.iter().enumerate() {
        let offset;
        let mut cur;
        if i == 0 && img.hdr_in_first {
            offset = 0;
            cur = pos;
        } else {
            offset = if s.pad_to_page { align(pos, PAGE) } else { align(pos, 16) };
            cur = offset;
        }
        let mut put = |kind: Ck, size: u64, cur: &mut u64| {
            let off = align(*cur, w.max(4));
            chunks.push(Chunk { kind, seg: i, off, size });
            *cur = off + size;
        };
        if i == 0 && img.interp {
            put(Ck::Interp, INTERP.len() as u64, &mut cur);
        }
        if meta_seg == Some(i) {
            put(Ck::Hash, hash_size, &mut cur);
            put(Ck::Dynsym, ndyn * symsz, &mut cur);
            put(Ck::Dynstr, dynstr.bytes.len() as u64, &mut cur);
            if nrel > 0 {
                put(Ck::RelDyn, nrel * relsz, &mut cur);
            }
            if nplt > 0 {
                put(Ck::RelPlt, nplt * relsz, &mut cur);
            }
        }
        if dyn_seg == Some(i) {
            put(Ck::Dynamic, ntags * 2 * w, &mut cur);
            put(Ck::Got, got_size, &mut cur);
        }
        let fill_start = cur - offset;
        if s.filler > 0 {
            chunks.push(Chunk { kind: Ck::Fill, seg: i, off: cur, size: s.filler as u64 });
            cur += s.filler as u64;
        }
        let filesz = cur - offset;
        let memsz = filesz + s.bss as u64;
        let page = if i == 0 { img.first_page } else { next_free_page + s.gap_pages as u64 };
        let vaddr = page.checked_mul(PAGE)?.checked_add(offset % PAGE)?;
        let end = vaddr.checked_add(memsz)?;
        if end > limit {
            return None;
        }
        next_free_page = if memsz == 0 { vaddr / PAGE + 1 } else { (end - 1) / PAGE + 1 };
        segs.push(SegL { vaddr, offset, filesz, memsz, flags: s.flags & 7, fill_start, fill_len: s.filler as u64 });
        pos = cur;
    }
    // non-alloc tables and the section header table
    let symtab_off = align(pos, 8);
    let symtab_size = if symtab_model.is_some() { (sym_order.len() as u64 + 1) * symsz } else { 0 };
    let strtab_off = symtab_off + symtab_size;
    let strtab_size = if symtab_model.is_some() { strtab.bytes.len() as u64 } else { 0 };
    let shstr_off = strtab_off + strtab_size;

    let chunk_addr = |c: &Chunk| segs[c.seg].vaddr + (c.off - segs[c.seg].offset);
    let find = |k: Ck| chunks.iter().find(|c| c.kind == k).copied();

    // ---- resolve symbolic addresses -------------------------------------------------------------
    let resolve = |a: &Addr| -> u64 { resolve_addr(&segs, img.class64, a) };

    // ---- sections (needed for st_shndx) ---------------------------------------------------------
    struct Sh {
        name: String,
        typ: u32,
        flags: u64,
        addr: u64,
        off: u64,
        size: u64,
        link: u32,
        info: u32,
        align: u64,
        entsize: u64,
    }
    let mut shs: Vec<Sh> = Vec::new();
    shs.push(Sh { name: String::new(), typ: 0, flags: 0, addr: 0, off: 0, size: 0, link: 0, info: 0, align: 0, entsize: 0 });
    // per segment: index of the section covering the free area / the bss tail
    let mut fill_sh: Vec<Option<u16>> = vec![None; n];
    let mut bss_sh: Vec<Option<u16>> = vec![None; n];
    let mut dynsym_sh = 0u32;
    let mut dynstr_sh = 0u32;
    for i in 0..n {
        let sflags = segs[i].flags;
        let mut shf: u64 = 2; // ALLOC
        if sflags & PF_W != 0 {
            shf |= 1;
        }
        if sflags & PF_X != 0 {
            shf |= 4;
        }
        for c in chunks.iter().filter(|c| c.seg == i) {
            let addr = chunk_addr(c);
            let idx = shs.len();
            let (name, typ, entsize, al): (String, u32, u64, u64) = match c.kind {
                Ck::Interp => (".interp".into(), 1, 0, 1),
                Ck::Hash => (".hash".into(), 5, 4, 4),
                Ck::Dynsym => {
                    dynsym_sh = idx as u32;
                    (".dynsym".into(), 11, symsz, w)
                }
                Ck::Dynstr => {
                    dynstr_sh = idx as u32;
                    (".dynstr".into(), 3, 0, 1)
                }
                Ck::RelDyn => (if rela { ".rela.dyn".into() } else { ".rel.dyn".into() }, if rela { 4 } else { 9 }, relsz, w),
                Ck::RelPlt => (if rela { ".rela.plt".into() } else { ".rel.plt".into() }, if rela { 4 } else { 9 }, relsz, w),
                Ck::Dynamic => (".dynamic".into(), 6, 2 * w, w),
                Ck::Got => (".got".into(), 1, w, w),
                Ck::Fill => {
                    fill_sh[i] = Some(idx as u16);
                    let base = if sflags & PF_X != 0 {
                        ".text"
                    } else if sflags & PF_W != 0 {
                        ".data"
                    } else {
                        ".rodata"
                    };
                    (if i == 0 { base.to_string() } else { format!("{}{}", base, i) }, 1, 0, 1)
                }
            };
            let flags = match c.kind {
                Ck::Fill | Ck::Got | Ck::Dynamic => shf,
                _ => 2,
            };
            shs.push(Sh { name, typ, flags, addr, off: c.off, size: c.size, link: 0, info: 0, align: al, entsize });
        }
        if img.segs[i].bss > 0 {
            bss_sh[i] = Some(shs.len() as u16);
            shs.push(Sh {
                name: if i == 0 { ".bss".into() } else { format!(".bss{}", i) },
                typ: 8,
                flags: shf | 1,
                addr: segs[i].vaddr + segs[i].filesz,
                off: segs[i].offset + segs[i].filesz,
                size: img.segs[i].bss as u64,
                link: 0,
                info: 0,
                align: 1,
                entsize: 0,
            });
        }
    }
    for sh in shs.iter_mut() {
        match sh.name.as_str() {
            ".dynsym" => {
                sh.link = dynstr_sh;
                sh.info = first_global_dyn;
            }
            ".hash" => sh.link = dynsym_sh,
            ".dynamic" => sh.link = dynstr_sh,
            ".rel.dyn" | ".rela.dyn" | ".rel.plt" | ".rela.plt" => sh.link = dynsym_sh,
            _ => {}
        }
    }
    let symtab_sh = shs.len() as u32;
    if symtab_model.is_some() {
        let first_global = 1 + symtab_model.unwrap().iter().filter(|s| s.bind == STB_LOCAL).count() as u32;
        shs.push(Sh { name: ".symtab".into(), typ: 2, flags: 0, addr: 0, off: symtab_off, size: symtab_size, link: symtab_sh + 1, info: first_global, align: w, entsize: symsz });
        shs.push(Sh { name: ".strtab".into(), typ: 3, flags: 0, addr: 0, off: strtab_off, size: strtab_size, link: 0, info: 0, align: 1, entsize: 0 });
    }
    let shstrndx = shs.len() as u16;
    let mut shstr = Strtab::new();
    shs.push(Sh { name: ".shstrtab".into(), typ: 3, flags: 0, addr: 0, off: shstr_off, size: 0, link: 0, info: 0, align: 1, entsize: 0 });
    let sh_names: Vec<u32> = shs.iter().map(|s| shstr.add(&s.name)).collect();
    let shstr_size = shstr.bytes.len() as u64;
    shs[shstrndx as usize].size = shstr_size;
    let shoff = align(shstr_off + shstr_size, 8);
    let total = if img.shdrs { shoff + shs.len() as u64 * shent } else { shstr_off };

    // ---- final symbol values --------------------------------------------------------------------
    let shndx_of = |s: &Sym, value: u64| -> u16 {
        match s.shn {
            Shn::Undef => 0,
            Shn::Abs => SHN_ABS,
            Shn::Sect => {
                // the section that contains the value, else the free-area section of the named
                // segment, else any section, else ABS
                for (k, sh) in shs.iter().enumerate().skip(1) {
                    if sh.flags & 2 != 0 && sh.size > 0 && value >= sh.addr && value < sh.addr + sh.size {
                        return k as u16;
                    }
                }
                if let Addr::In { seg, .. } = &s.addr {
                    let i = *seg as usize % n;
                    if let Some(k) = fill_sh[i].or(bss_sh[i]) {
                        return k;
                    }
                }
                if shs.len() > 2 {
                    1
                } else {
                    SHN_ABS
                }
            }
        }
    };
    let lay = |model: &Vec<Sym>, ord: &Vec<usize>| -> Vec<SymL> {
        let mut v = vec![SymL { name: String::new(), value: 0, shndx: 0, typ: 0, bind: 0 }];
        for m in ord {
            let s = &model[*m];
            let value = resolve(&s.addr);
            v.push(SymL { name: s.name.clone(), value, shndx: shndx_of(s, value), typ: s.typ & 0xf, bind: s.bind & 0xf });
        }
        v
    };
    let dynsyms: Vec<SymL> = dynamic.map(|d| lay(&d.syms, &dyn_order)).unwrap_or_default();
    let symtab: Vec<SymL> = symtab_model.map(|s| lay(s, &sym_order)).unwrap_or_default();
    let entry = resolve(&img.entry);

    // ---- notes: a PT_NOTE header points at a well-formed note kept at the end of a free area -----
    // (offset in segment, length) per extra; the tail of the free area they occupy is not used for
    // relocation slots
    let mut reserved: Vec<u64> = vec![0; n];
    let mut note_at: Vec<Option<(u64, u64)>> = vec![None; img.extras.len()];
    for (k, e) in img.extras.iter().enumerate() {
        if e.ptype != PT_NOTE {
            continue;
        }
        let i = e.seg as usize % n;
        let want = 16 + ((e.len as u64 % 32) & !3);
        let room = segs[i].fill_len - reserved[i];
        let mut placed = (segs[i].fill_start, 0); // an empty note segment
        if room >= want + 4 {
            let mut off = segs[i].fill_start + room - want;
            off -= (segs[i].offset + off) % 4;
            if off >= segs[i].fill_start {
                reserved[i] = segs[i].fill_start + segs[i].fill_len - off;
                placed = (off, want);
            }
        }
        note_at[k] = Some(placed);
    }

    // ---- relocation slots -----------------------------------------------------------------------
    let mut used: Vec<Vec<u64>> = vec![Vec::new(); n];
    let mut place = |r: &Reloc| -> Option<RelL> {
        // candidate segments: those whose free area has room for one word
        let cands: Vec<usize> = (0..n).filter(|i| segs[*i].fill_len - reserved[*i] >= w).collect();
        if cands.is_empty() {
            return None;
        }
        let start = r.seg as usize % cands.len();
        for k in 0..cands.len() {
            let i = cands[(start + k) % cands.len()];
            let nslots = (segs[i].fill_len - reserved[i]) / w;
            if (used[i].len() as u64) < nslots {
                let mut sl = r.slot as u64 % nslots;
                while used[i].contains(&sl) {
                    sl = (sl + 1) % nslots;
                }
                used[i].push(sl);
                let r_offset = segs[i].vaddr + segs[i].fill_start + sl * w;
                if r.kind != RelKind::Relative && dyn_final.is_empty() {
                    return None;
                }
                let sym = if r.kind == RelKind::Relative { 0 } else { dyn_final[r.sym as usize % dyn_final.len()] };
                let addend = if r.kind == RelKind::Relative { resolve(&r.addend) } else { 0 };
                return Some(RelL { kind: r.kind, r_offset, sym, rtype: rel_type(img.machine, r.kind), addend, width: w });
            }
        }
        None
    };
    let mut plt: Vec<RelL> = Vec::new();
    let mut rel: Vec<RelL> = Vec::new();
    if let Some(d) = dynamic {
        for r in &d.plt {
            plt.push(place(r)?);
        }
        for r in &d.rel {
            rel.push(place(r)?);
        }
    }

    // ---- MIPS GOT ---------------------------------------------------------------------------------
    let got: Option<GotL> = match (mips_got, mips_shape) {
        (Some(g), Some((local_gotno, gotsym))) => {
            let mut init: Vec<u32> = vec![0, 0x8000_0000];
            for a in &g.locals {
                init.push(resolve(a) as u32);
            }
            for k in gotsym as usize..ndyn as usize {
                // defined: the link-time address; undefined: 0, or the address of its lazy stub
                init.push(dynsyms[k].value as u32);
            }
            Some(GotL { addr: chunk_addr(&find(Ck::Got)?), local_gotno, gotsym: gotsym as usize, init })
        }
        _ => None,
    };

    // ---- emit -----------------------------------------------------------------------------------
    let mut file = vec![0u8; total as usize];
    let mut blit = |off: u64, data: &[u8]| {
        file[off as usize..off as usize + data.len()].copy_from_slice(data);
    };
    // free areas first (relocation addends are patched over them)
    for c in chunks.iter().filter(|c| c.kind == Ck::Fill) {
        let seed = img.segs[c.seg].seed as u64;
        let data: Vec<u8> = (0..c.size).map(|k| 1 + ((k * 131 + seed * 7 + (k >> 8) * 17) % 255) as u8).collect();
        blit(c.off, &data);
    }
    for (k, e) in img.extras.iter().enumerate() {
        if let Some((off, len)) = note_at[k] {
            if len >= 16 {
                let mut b = Vec::new();
                enc.u32(&mut b, 4); // namesz
                enc.u32(&mut b, (len - 16) as u32); // descsz
                enc.u32(&mut b, 1); // type
                b.extend_from_slice(b"GNU\0");
                b.extend((0..len - 16).map(|x| (x as u8).wrapping_mul(29) ^ 0x5a));
                blit(segs[e.seg as usize % n].offset + off, &b);
            }
        }
    }
    let off_of_addr = |a: u64| -> Option<u64> {
        for s in &segs {
            if a >= s.vaddr && a < s.vaddr + s.filesz {
                return Some(s.offset + (a - s.vaddr));
            }
        }
        None
    };
    if !rela {
        for r in plt.iter().chain(rel.iter()) {
            // REL: the addend lives in place (0 for symbol relocations, the link-time address for
            // RELATIVE)
            let mut b = Vec::new();
            enc.word(&mut b, r.addend);
            blit(off_of_addr(r.r_offset)?, &b);
        }
    }
    let emit_syms = |tab: &Vec<SymL>, names: &Vec<u32>, model: &Vec<Sym>, ord: &Vec<usize>| -> Vec<u8> {
        let mut b = Vec::new();
        for (k, s) in tab.iter().enumerate() {
            let (name, size, other) = if k == 0 { (0, 0, 0) } else { (names[k - 1], model[ord[k - 1]].size as u64, model[ord[k - 1]].other & 3) };
            let info = (s.bind << 4) | s.typ;
            if img.class64 {
                enc.u32(&mut b, name);
                b.push(info);
                b.push(other);
                enc.u16(&mut b, s.shndx);
                enc.u64(&mut b, s.value);
                enc.u64(&mut b, size);
            } else {
                enc.u32(&mut b, name);
                enc.u32(&mut b, s.value as u32);
                enc.u32(&mut b, size as u32);
                b.push(info);
                b.push(other);
                enc.u16(&mut b, s.shndx);
            }
        }
        b
    };
    let emit_rels = |rs: &Vec<RelL>| -> Vec<u8> {
        let mut b = Vec::new();
        for r in rs {
            enc.word(&mut b, r.r_offset);
            if img.class64 {
                enc.u64(&mut b, ((r.sym as u64) << 32) | r.rtype as u64);
            } else {
                enc.u32(&mut b, ((r.sym as u32) << 8) | (r.rtype & 0xff));
            }
            if rela {
                enc.word(&mut b, r.addend);
            }
        }
        b
    };
    if let Some(d) = dynamic {
        for c in &chunks {
            match c.kind {
                Ck::Hash => {
                    let mut buckets = vec![0u32; nbucket as usize];
                    let mut chain = vec![0u32; ndyn as usize];
                    for k in 1..ndyn as usize {
                        let h = (elf_hash(&dynsyms[k].name) as u64 % nbucket) as usize;
                        chain[k] = buckets[h];
                        buckets[h] = k as u32;
                    }
                    let mut b = Vec::new();
                    enc.u32(&mut b, nbucket as u32);
                    enc.u32(&mut b, ndyn as u32);
                    for x in buckets.iter().chain(chain.iter()) {
                        enc.u32(&mut b, *x);
                    }
                    blit(c.off, &b);
                }
                Ck::Dynsym => blit(c.off, &emit_syms(&dynsyms, &dyn_names, &d.syms, &dyn_order)),
                Ck::Dynstr => blit(c.off, &dynstr.bytes),
                Ck::RelDyn => blit(c.off, &emit_rels(&rel)),
                Ck::RelPlt => blit(c.off, &emit_rels(&plt)),
                Ck::Dynamic => {
                    let mut b = Vec::new();
                    let tag = |b: &mut Vec<u8>, t: u64, v: u64| {
                        enc.word(b, t);
                        enc.word(b, v);
                    };
                    // DT_NEEDED in the order given: all first, or one between each of the tags
                    // that follow and the rest behind them
                    let mut pending = needed_off.iter();
                    if d.needed_spread {
                        if let Some(o) = soname_off {
                            tag(&mut b, 14, o as u64);
                        }
                        tag(&mut b, 4, chunk_addr(&find(Ck::Hash)?));
                        if let Some(o) = pending.next() {
                            tag(&mut b, 1, *o as u64);
                        }
                        tag(&mut b, 5, chunk_addr(&find(Ck::Dynstr)?));
                        if let Some(o) = pending.next() {
                            tag(&mut b, 1, *o as u64);
                        }
                        tag(&mut b, 6, chunk_addr(&find(Ck::Dynsym)?));
                        tag(&mut b, 10, dynstr.bytes.len() as u64);
                        tag(&mut b, 11, symsz);
                        for o in pending {
                            tag(&mut b, 1, *o as u64);
                        }
                    } else {
                        for o in pending {
                            tag(&mut b, 1, *o as u64);
                        }
                        if let Some(o) = soname_off {
                            tag(&mut b, 14, o as u64);
                        }
                        tag(&mut b, 4, chunk_addr(&find(Ck::Hash)?));
                        tag(&mut b, 5, chunk_addr(&find(Ck::Dynstr)?));
                        tag(&mut b, 6, chunk_addr(&find(Ck::Dynsym)?));
                        tag(&mut b, 10, dynstr.bytes.len() as u64);
                        tag(&mut b, 11, symsz);
                    }
                    if d.extra_tags {
                        tag(&mut b, 21, 0); // DT_DEBUG
                    }
                    tag(&mut b, 3, chunk_addr(&find(Ck::Got)?));
                    if nplt > 0 {
                        tag(&mut b, 2, nplt * relsz);
                        tag(&mut b, 20, if rela { 7 } else { 17 });
                        tag(&mut b, 23, chunk_addr(&find(Ck::RelPlt)?));
                    }
                    if nrel > 0 {
                        tag(&mut b, if rela { 7 } else { 17 }, chunk_addr(&find(Ck::RelDyn)?));
                        tag(&mut b, if rela { 8 } else { 18 }, nrel * relsz);
                        tag(&mut b, if rela { 9 } else { 19 }, relsz);
                    }
                    if d.extra_tags {
                        tag(&mut b, 30, 0); // DT_FLAGS
                    }
                    if let Some((local_gotno, gotsym)) = mips_shape {
                        tag(&mut b, 0x7000_0001, 1); // DT_MIPS_RLD_VERSION
                        tag(&mut b, 0x7000_0005, 2); // DT_MIPS_FLAGS
                        tag(&mut b, 0x7000_0006, segs[0].vaddr & !(PAGE - 1)); // DT_MIPS_BASE_ADDRESS
                        tag(&mut b, 0x7000_000a, local_gotno);
                        tag(&mut b, 0x7000_0011, ndyn); // DT_MIPS_SYMTABNO
                        tag(&mut b, 0x7000_0013, gotsym);
                    }
                    tag(&mut b, 0, 0);
                    debug_assert_eq!(b.len() as u64, c.size);
                    blit(c.off, &b);
                }
                Ck::Got => {
                    let mut b = Vec::new();
                    match &got {
                        Some(g) => {
                            for x in &g.init {
                                enc.u32(&mut b, *x);
                            }
                        }
                        None => enc.word(&mut b, chunk_addr(&find(Ck::Dynamic)?)),
                    }
                    blit(c.off, &b);
                }
                _ => {}
            }
        }
    }
    if let Some(c) = find(Ck::Interp) {
        blit(c.off, INTERP);
    }
    if let Some(s) = symtab_model {
        blit(symtab_off, &emit_syms(&symtab, &sym_names, s, &sym_order));
        blit(strtab_off, &strtab.bytes);
    }
    if img.shdrs {
        blit(shstr_off, &shstr.bytes);
        let mut b = Vec::new();
        for (k, sh) in shs.iter().enumerate() {
            enc.u32(&mut b, sh_names[k]);
            enc.u32(&mut b, sh.typ);
            enc.word(&mut b, sh.flags);
            enc.word(&mut b, sh.addr);
            enc.word(&mut b, sh.off);
            enc.word(&mut b, sh.size);
            enc.u32(&mut b, sh.link);
            enc.u32(&mut b, sh.info);
            enc.word(&mut b, sh.align);
            enc.word(&mut b, sh.entsize);
        }
        blit(shoff, &b);
    }

    // program headers
    let mut phl: Vec<PhL> = Vec::new();
    for p in &phs {
        let (ptype, flags, offset, vaddr, filesz, memsz, al): (u32, u32, u64, u64, u64, u64, u64) = match *p {
            Ph::Phdr => (PT_PHDR, PF_R, ehsize, segs[0].vaddr + ehsize, phnum * phent, phnum * phent, w),
            Ph::Interp => {
                let c = find(Ck::Interp)?;
                (PT_INTERP, PF_R, c.off, chunk_addr(&c), c.size, c.size, 1)
            }
            Ph::Load(i) => (PT_LOAD, segs[i].flags, segs[i].offset, segs[i].vaddr, segs[i].filesz, segs[i].memsz, PAGE),
            Ph::Dynamic => {
                let c = find(Ck::Dynamic)?;
                (PT_DYNAMIC, PF_R | PF_W, c.off, chunk_addr(&c), c.size, c.size, w)
            }
            Ph::Extra(k) => {
                let e = &img.extras[k];
                let s = &segs[e.seg as usize % n];
                let (off, len) = match note_at[k] {
                    Some(p) => p,
                    None => {
                        let off = e.pos as u64 % (s.filesz + 1);
                        (off, (e.len as u64).min(s.filesz - off))
                    }
                };
                let mem_extra = if e.ptype == PT_TLS { e.mem_extra as u64 } else { 0 };
                (e.ptype, e.flags & 7, s.offset + off, s.vaddr + off, len, len + mem_extra, 4)
            }
            Ph::Stack => (PT_GNU_STACK, img.gnu_stack.unwrap_or(6) & 7, 0, 0, 0, 0, 16),
        };
        phl.push(PhL { ptype, flags, offset, vaddr, filesz, memsz });
        let _ = al;
    }
    {
        let mut b = Vec::new();
        for (p, ph) in phl.iter().zip(phs.iter()) {
            let al: u64 = match ph {
                Ph::Load(_) => PAGE,
                Ph::Stack => 16,
                Ph::Interp => 1,
                _ if p.ptype == PT_NOTE => 4,
                _ => w,
            };
            let paddr = if p.ptype == PT_GNU_STACK {
                0
            } else {
                let pa = p.vaddr.wrapping_add(img.paddr_delta);
                if pa.checked_add(p.memsz).map(|e| e <= limit).unwrap_or(false) {
                    pa
                } else {
                    p.vaddr
                }
            };
            if img.class64 {
                enc.u32(&mut b, p.ptype);
                enc.u32(&mut b, p.flags);
                enc.u64(&mut b, p.offset);
                enc.u64(&mut b, p.vaddr);
                enc.u64(&mut b, paddr);
                enc.u64(&mut b, p.filesz);
                enc.u64(&mut b, p.memsz);
                enc.u64(&mut b, al);
            } else {
                enc.u32(&mut b, p.ptype);
                enc.u32(&mut b, p.offset as u32);
                enc.u32(&mut b, p.vaddr as u32);
                enc.u32(&mut b, paddr as u32);
                enc.u32(&mut b, p.filesz as u32);
                enc.u32(&mut b, p.memsz as u32);
                enc.u32(&mut b, p.flags);
                enc.u32(&mut b, al as u32);
            }
        }
        blit(ehsize, &b);
    }
    // ELF header
    {
        let mut b: Vec<u8> = vec![0x7f, b'E', b'L', b'F', if img.class64 { 2 } else { 1 }, if img.big { 2 } else { 1 }, 1, 0];
        b.extend_from_slice(&[0u8; 8]);
        enc.u16(&mut b, img.etype);
        enc.u16(&mut b, img.machine);
        enc.u32(&mut b, 1);
        enc.word(&mut b, entry);
        enc.word(&mut b, ehsize);
        enc.word(&mut b, if img.shdrs { shoff } else { 0 });
        enc.u32(&mut b, 0);
        enc.u16(&mut b, ehsize as u16);
        enc.u16(&mut b, phent as u16);
        enc.u16(&mut b, phnum as u16);
        enc.u16(&mut b, shent as u16);
        enc.u16(&mut b, if img.shdrs { shs.len() as u16 } else { 0 });
        enc.u16(&mut b, if img.shdrs { shstrndx } else { 0 });
        debug_assert_eq!(b.len() as u64, ehsize);
        blit(0, &b);
    }

    Some(Built { bytes: file, segs, symtab, dynsyms, plt, rel, entry, phdrs: phl, addr_bits: if img.class64 { 64 } else { 32 }, got })
}
