//! C19 — ELF loading maps exactly the image and rebases uniformly.
//!
//! Domain: well-formed ELF images produced by the harness-side writer (`elfw`) from a model:
//! ELF32/ELF64, LSB/MSB, EM_386 / X86_64 / MIPS / PPC / AARCH64, 1-4 PT_LOAD segments, non-load
//! program headers, section headers, .symtab / .dynsym, .dynamic, PLT and dynamic relocations;
//! a base address; user function entries.  For the linker: a main object plus one or two shared
//! objects (EM_386 with R_386_* relocations, or MIPS o32 with a GOT) written to a scratch directory
//! under work/C19 and linked with `ElfLinker`.
//!
//! Oracle: the model (never falcon's or goblin's reading of the bytes).

mod elfw;

use elfw::*;
use falcon::architecture::Endian;
use falcon::loader::{Elf, ElfLinkerBuilder, Loader};
use falcon::memory::backing::Memory;
use fv::engine::{self, guard, Failure, Obs, Spec, Tier};
use fv::tape::{from_tape, Tape};
use serde::{Deserialize, Serialize};
use std::collections::{BTreeMap, BTreeSet};

#[derive(Clone, Debug, Serialize, Deserialize)]
struct Obj {
    file: String,
    image: Image,
}

#[derive(Clone, Debug, Serialize, Deserialize)]
enum Case {
    Single { image: Image, base: u64, user: Vec<Addr> },
    /// objs[0] is the main program; the others are the shared objects named by DT_NEEDED
    Link { objs: Vec<Obj> },
}

// ---------------------------------------------------------------------------------------------
// generation

const NAMES: [&str; 20] = [
    "main", "_start", "foo", "bar", "baz", "_init", "_fini", "data_start", "_edata", "_end", "memcpy", "puts", "exit", "errno", "table", "helper", "cb",
    "__gmon_start__", "stdout", "x",
];

/// (machine, class64, big endian, weight)
const ARCHS: [(u16, bool, bool, u32); 12] = [
    (EM_386, false, false, 20),
    (EM_X86_64, true, false, 17),
    (EM_MIPS, false, true, 11),
    (EM_MIPS, false, false, 10),
    (EM_PPC, false, true, 12),
    (EM_AARCH64, true, false, 10),
    (EM_AARCH64, true, true, 9),
    (EM_MIPS, true, true, 2),
    (EM_MIPS, true, false, 2),
    (EM_X86_64, false, false, 2),
    (EM_AARCH64, false, false, 2),
    (EM_PPC, false, false, 3),
];

fn gen_seg(t: &mut Tape) -> Seg {
    let flags = [5u32, 6, 4, 7, 0, 1, 2, 3][t.below(8)];
    let gap_pages = match t.weighted(&[40, 30, 20, 10]) {
        0 => 0,
        1 => t.range(1, 3),
        2 => t.range(4, 64),
        _ => t.range(65, 1000),
    } as u32;
    let pad_to_page = t.chance(1, 4);
    let filler = match t.weighted(&[48, 8, 10, 22, 12]) {
        0 => t.range(8, 128),
        1 => 0,
        2 => t.range(1, 7),
        3 => t.range(129, 1500),
        _ => t.range(0x1000, 0x2400),
    } as u32;
    let bss = match t.weighted(&[40, 25, 20, 15]) {
        0 => 0,
        1 => t.range(1, 64),
        2 => t.range(65, 0x1000),
        _ => t.range(0x1001, 0x3000),
    } as u32;
    Seg { flags, gap_pages, pad_to_page, filler, bss, seed: t.raw() as u8 }
}

fn gen_in(t: &mut Tape, nseg: usize) -> Addr {
    let seg = t.below(nseg) as u32;
    let pos = match t.weighted(&[30, 40, 30]) {
        0 => 0,
        1 => t.range(1, 4) as u32,
        _ => t.raw(),
    };
    Addr::In { seg, pos, from_end: t.chance(1, 4) }
}

fn gen_raw(t: &mut Tape, c64: bool) -> Addr {
    let v = match t.below(4) {
        0 => 0x10,
        1 => 0x7fff_0000,
        2 => t.raw() as u64 & 0x7fff_ffff,
        _ => {
            if c64 {
                t.u64() & 0x0000_7fff_ffff_ffff
            } else {
                t.raw() as u64 & 0x7fff_ffff
            }
        }
    };
    Addr::Raw(v)
}

fn gen_sym(t: &mut Tape, nseg: usize, c64: bool) -> Sym {
    let name = if t.chance(1, 16) { String::new() } else { NAMES[t.below(NAMES.len())].to_string() };
    let typ = [STT_FUNC, STT_OBJECT, STT_NOTYPE, STT_SECTION, STT_FILE][t.weighted(&[50, 18, 18, 8, 6])];
    let bind = [STB_GLOBAL, STB_LOCAL, STB_WEAK][t.weighted(&[50, 30, 20])];
    let (shn, addr) = match t.weighted(&[48, 16, 12, 7, 6, 5, 3, 3]) {
        0 => (Shn::Sect, gen_in(t, nseg)),
        1 => (Shn::Undef, Addr::Zero),
        2 => (Shn::Undef, gen_in(t, nseg)), // i386/MIPS convention: value = PLT stub of an import
        3 => (Shn::Sect, Addr::Zero),
        4 => (Shn::Abs, gen_raw(t, c64)),
        5 => (Shn::Sect, gen_raw(t, c64)),
        6 => (Shn::Abs, Addr::Zero),
        _ => (Shn::Abs, gen_in(t, nseg)),
    };
    Sym { name, typ, bind, other: t.below(4) as u8, size: t.below(64) as u32, shn, addr }
}

fn gen_reloc(t: &mut Tape, nseg: usize, plt: bool) -> Reloc {
    let kind = if plt { RelKind::JmpSlot } else { [RelKind::GlobDat, RelKind::Abs, RelKind::Relative][t.below(3)] };
    Reloc { kind, sym: t.below(8) as u32, seg: t.below(nseg) as u32, slot: t.raw() % 4096, addend: gen_in(t, nseg) }
}

const EXTRA_TYPES: [u32; 7] = [PT_NOTE, PT_GNU_RELRO, PT_TLS, PT_GNU_EH_FRAME, PT_NULL, PT_MIPS_REGINFO, PT_NOTE];

fn gen_image(t: &mut Tape, link_arch: Option<(u16, bool)>) -> Image {
    let link = link_arch.is_some();
    let (machine, class64, big) = if let Some((m, b)) = link_arch {
        (m, false, b)
    } else {
        let w: Vec<u32> = ARCHS.iter().map(|a| a.3).collect();
        let a = ARCHS[t.weighted(&w)];
        (a.0, a.1, a.2)
    };
    let nseg = 1 + t.weighted(&[18, 34, 26, 22]);
    let mut segs: Vec<Seg> = (0..nseg).map(|_| gen_seg(t)).collect();
    let hdr_in_first = link || !t.chance(1, 4);
    let first_page = if class64 {
        match t.below(6) {
            0 => 0x400,
            1 => 0,
            2 => 1,
            3 => 0x5_5555_5554,
            4 => 0x10,
            _ => t.u64() & 0xf_ffff_ffff,
        }
    } else if link {
        [0x8048u64, 0x400, 0x10, 1][t.below(4)]
    } else {
        match t.below(7) {
            0 => 0x8048,
            1 => 0,
            2 => 1,
            3 => 0x10,
            4 => 0x400,
            5 => 0x10000,
            _ => t.below(0x30000) as u64,
        }
    };
    // an image linked at address 0 whose first segment does not hold the headers (firmware style):
    // its first byte is address 0
    let low = !link && t.chance(1, 10);
    let (first_page, hdr_in_first) = if low { (0, false) } else { (first_page, hdr_in_first) };
    if low {
        segs[0].pad_to_page = true;
        segs[0].filler = segs[0].filler.max(8);
    }
    let symtab = if t.chance(3, 4) {
        let k = t.range(0, 8);
        Some((0..k).map(|_| gen_sym(t, nseg, class64)).collect())
    } else {
        None
    };
    let dynamic = if link || t.chance(1, 2) {
        let k = t.range(0, 6);
        let mut syms: Vec<Sym> = (0..k).map(|_| gen_sym(t, nseg, class64)).collect();
        let needed = (0..t.weighted(&[50, 35, 15])).map(|i| format!("libdep{}.so", i)).collect();
        let soname = if t.chance(1, 3) { Some("libself.so.1".to_string()) } else { None };
        // MIPS64 has its own r_info layout: no relocations there
        let relocs_ok = !(machine == EM_MIPS && class64);
        let nplt = if relocs_ok { t.weighted(&[40, 25, 20, 10, 5]) } else { 0 };
        let nrel = if relocs_ok { t.weighted(&[50, 25, 15, 10]) } else { 0 };
        let plt: Vec<Reloc> = (0..nplt).map(|_| gen_reloc(t, nseg, true)).collect();
        let rel: Vec<Reloc> = (0..nrel).map(|_| gen_reloc(t, nseg, false)).collect();
        if syms.is_empty() && (!plt.is_empty() || rel.iter().any(|r| r.kind != RelKind::Relative)) {
            // a symbol relocation needs a symbol to name
            syms.push(gen_sym(t, nseg, class64));
        }
        let (mut meta_seg, mut dyn_seg) = (t.below(nseg) as u32, t.below(nseg) as u32);
        if low && nseg > 1 {
            // keep the tables out of the segment at address 0
            meta_seg = meta_seg.max(1);
            dyn_seg = dyn_seg.max(1);
        }
        let mips_got = if machine == EM_MIPS && !class64 && t.chance(1, 2) {
            let nl = t.below(4);
            Some(MipsGot { locals: (0..nl).map(|_| gen_in(t, nseg)).collect(), skip_globals: t.below(3) as u32 })
        } else {
            None
        };
        Some(Dynamic { syms, needed, soname, plt, rel, meta_seg, dyn_seg, extra_tags: t.chance(1, 2), mips_got, needed_spread: t.chance(1, 3) })
    } else {
        None
    };
    if let Some(d) = &dynamic {
        let need = (d.plt.len() + d.rel.len() + 1) as u32 * 8;
        if !d.plt.is_empty() || !d.rel.is_empty() {
            segs[0].filler = segs[0].filler.max(need);
        }
    }
    let entry = match t.weighted(&[70, 12, 10, 8]) {
        0 => gen_in(t, nseg),
        1 => Addr::Zero,
        2 => gen_raw(t, class64),
        _ => Addr::In { seg: 0, pos: 0, from_end: false },
    };
    let nextra = t.weighted(&[40, 30, 20, 10]);
    let extras = (0..nextra)
        .map(|_| Extra { ptype: EXTRA_TYPES[t.below(EXTRA_TYPES.len())], flags: t.below(8) as u32, seg: t.below(nseg) as u32, pos: t.raw() % 0x4000, len: t.below(0x200) as u32, mem_extra: t.below(0x2000) as u32 })
        .collect();
    Image {
        class64,
        big,
        machine,
        etype: if t.chance(1, 2) { 3 } else { 2 },
        first_page,
        hdr_in_first,
        segs,
        symtab,
        dynamic,
        entry,
        extras,
        phdr: t.chance(1, 2),
        interp: t.chance(1, 3) && !low,
        gnu_stack: if t.chance(1, 2) { Some([6u32, 7][t.below(2)]) } else { None },
        shdrs: link || !t.chance(1, 8),
        paddr_delta: [0u64, 0, 0x10_0000, 0x1000][t.below(4)],
    }
}

fn gen_base(t: &mut Tape, c64: bool) -> u64 {
    match t.weighted(&[14, 14, 18, 42, 12]) {
        0 => 0,
        1 => 0x1000,
        2 => 0x4000_0000,
        3 => {
            if c64 {
                (t.biased(35) as u64) * PAGE
            } else {
                (t.below(0x7_ffff) as u64 + 1) * PAGE
            }
        }
        _ => [1u64, 0x123, 0x1004, 0x4000_0ff8][t.below(4)],
    }
}

/// A main program and one or two shared objects.  Every object exports uniquely named symbols;
/// an object imports (through JMP_SLOT / GLOB_DAT / R_386_32) symbols exported by itself, by the
/// main program or by the objects it names in DT_NEEDED, and has R_386_RELATIVE words.
fn gen_link(t: &mut Tape) -> Case {
    let nlibs = 1 + t.weighted(&[60, 40]);
    // topology with two libraries: main -> a -> b (chain), main -> a, b (flat), or the diamond
    // main -> a, b with a -> b as well (b is needed twice and must be loaded once)
    let topo = if nlibs == 2 { t.below(3) } else { 0 };
    let chain = topo == 1;
    let diamond = topo == 2;
    let files: Vec<String> = ["main", "liba.so", "libb.so"][..=nlibs].iter().map(|s| s.to_string()).collect();
    // EM_386 (R_386_* relocations) or MIPS o32 (GOT relocation + R_MIPS_REL32)
    let arch = [(EM_386, false), (EM_386, false), (EM_MIPS, true), (EM_MIPS, false)][t.below(4)];
    let mips = arch.0 == EM_MIPS;
    let mut images: Vec<Image> = (0..=nlibs).map(|_| gen_image(t, Some(arch))).collect();
    // exports
    let mut exports: Vec<Vec<String>> = Vec::new();
    for (k, img) in images.iter_mut().enumerate() {
        let nseg = img.segs.len();
        let d = img.dynamic.as_mut().unwrap();
        // generated noise symbols must not be visible definitions: make them local or undefined
        for s in d.syms.iter_mut() {
            if s.shn != Shn::Undef && s.bind != STB_LOCAL {
                s.bind = STB_LOCAL;
            }
        }
        if mips {
            // every undefined symbol with a GOT entry must resolve: no undefined noise
            d.syms.retain(|s| s.shn != Shn::Undef);
            let nl = t.below(4);
            d.mips_got = Some(MipsGot { locals: (0..nl).map(|_| gen_in(t, nseg)).collect(), skip_globals: 0 });
        }
        d.plt.clear();
        d.rel.clear();
        d.soname = if k > 0 { Some(files[k].clone()) } else { None };
        let ne = t.range(1, 4);
        let mut names = Vec::new();
        for e in 0..ne {
            let name = format!("{}_{}", ["m", "a", "b"][k], e);
            d.syms.push(Sym {
                name: name.clone(),
                typ: [STT_FUNC, STT_OBJECT, STT_NOTYPE][t.below(3)],
                bind: if t.chance(1, 4) { STB_WEAK } else { STB_GLOBAL },
                other: 0,
                size: t.below(32) as u32,
                shn: Shn::Sect,
                addr: gen_in(t, nseg),
            });
            names.push(name);
        }
        exports.push(names);
    }
    // DT_NEEDED
    for (k, img) in images.iter_mut().enumerate() {
        let d = img.dynamic.as_mut().unwrap();
        d.needed = match (k, nlibs, chain) {
            (0, 1, _) => vec![files[1].clone()],
            (0, 2, true) => vec![files[1].clone()],
            (0, 2, false) => vec![files[1].clone(), files[2].clone()],
            (1, 2, true) => vec![files[2].clone()],
            (1, 2, false) if diamond => vec![files[2].clone()],
            _ => vec![],
        };
    }
    // imports and relocations
    for k in 0..=nlibs {
        // objects whose exports are visible to k: itself, main, its dependency closure
        let mut visible: Vec<usize> = vec![k, 0];
        match (k, nlibs, chain) {
            (0, _, _) => visible.extend(1..=nlibs),
            (1, 2, true) => visible.push(2),
            (1, 2, false) if diamond => visible.push(2),
            _ => {}
        }
        visible.sort();
        visible.dedup();
        let nseg = images[k].segs.len();
        let nrel = t.range(1, 6);
        let mut plt = Vec::new();
        let mut rel = Vec::new();
        for _ in 0..nrel {
            let kind = [RelKind::JmpSlot, RelKind::GlobDat, RelKind::Abs, RelKind::Relative][t.below(4)];
            let mut r = gen_reloc(t, nseg, false);
            r.kind = kind;
            if mips {
                // a symbol reference is a GOT entry (made by importing the name); words in
                // .rel.dyn are R_MIPS_REL32 against symbol 0
                if kind != RelKind::Relative {
                    let from = visible[t.below(visible.len())];
                    let name = exports[from][t.below(exports[from].len())].clone();
                    let d = images[k].dynamic.as_mut().unwrap();
                    if !d.syms.iter().any(|s| s.name == name) {
                        let addr = if t.chance(1, 3) { gen_in(t, nseg) } else { Addr::Zero };
                        d.syms.push(Sym { name, typ: [STT_FUNC, STT_NOTYPE, STT_OBJECT][t.below(3)], bind: STB_GLOBAL, other: 0, size: 0, shn: Shn::Undef, addr });
                    }
                    continue;
                }
                rel.push(r);
                continue;
            }
            if kind != RelKind::Relative {
                let from = visible[t.below(visible.len())];
                let name = exports[from][t.below(exports[from].len())].clone();
                let d = images[k].dynamic.as_mut().unwrap();
                let idx = match d.syms.iter().position(|s| s.name == name) {
                    Some(i) => i,
                    None => {
                        // an import: undefined, value 0 or (i386 convention) the address of a stub
                        let addr = if t.chance(1, 3) { gen_in(t, nseg) } else { Addr::Zero };
                        d.syms.push(Sym { name, typ: [STT_FUNC, STT_NOTYPE, STT_OBJECT][t.below(3)], bind: STB_GLOBAL, other: 0, size: 0, shn: Shn::Undef, addr });
                        d.syms.len() - 1
                    }
                };
                r.sym = idx as u32;
            }
            if kind == RelKind::JmpSlot {
                plt.push(r)
            } else {
                rel.push(r)
            }
        }
        let img = &mut images[k];
        let need = (nrel as u32 + 1) * 8;
        img.segs[0].filler = img.segs[0].filler.max(need);
        let d = img.dynamic.as_mut().unwrap();
        d.plt = plt;
        d.rel = rel;
    }
    Case::Link { objs: files.into_iter().zip(images).map(|(file, image)| Obj { file, image }).collect() }
}

fn decode(t: &mut Tape) -> Case {
    if t.chance(1, 20) {
        return gen_link(t);
    }
    let image = gen_image(t, None);
    let base = gen_base(t, image.class64);
    let nseg = image.segs.len();
    let nuser = t.weighted(&[45, 30, 15, 10]);
    let user = (0..nuser)
        .map(|_| match t.weighted(&[70, 10, 20]) {
            0 => gen_in(t, nseg),
            1 => Addr::Zero,
            _ => gen_raw(t, image.class64),
        })
        .collect();
    Case::Single { image, base, user }
}

// ---------------------------------------------------------------------------------------------
// oracle helpers

/// What the header names: (falcon architecture name, big endian).  None: a combination falcon
/// declines with an error (PowerPC little endian).
fn expected_arch(img: &Image) -> Option<(&'static str, bool)> {
    match (img.machine, img.big) {
        (EM_386, false) => Some(("x86", false)),
        (EM_X86_64, false) => Some(("amd64", false)),
        (EM_MIPS, true) => Some(("mips", true)),
        (EM_MIPS, false) => Some(("mipsel", false)),
        (EM_PPC, true) => Some(("ppc", true)),
        (EM_AARCH64, false) => Some(("aarch64", false)),
        (EM_AARCH64, true) => Some(("aarch64eb", true)),
        _ => None,
    }
}

fn perms_of(flags: u32) -> u32 {
    // falcon: READ 1, WRITE 2, EXECUTE 4; ELF: PF_X 1, PF_W 2, PF_R 4
    (if flags & PF_R != 0 { 1 } else { 0 }) | (if flags & PF_W != 0 { 2 } else { 0 }) | (if flags & PF_X != 0 { 4 } else { 0 })
}

#[derive(Clone, Debug)]
struct Region {
    start: u64,
    data: Vec<u8>,
    perms: u32,
    filesz: u64,
    /// (offset in region, length) of words whose value is decided by a relocation
    reloc_words: Vec<(u64, u64)>,
}

impl Region {
    fn end(&self) -> u64 {
        self.start + self.data.len() as u64
    }
}

fn regions_of(b: &Built, base: u64) -> Vec<Region> {
    let mut v = Vec::new();
    for s in &b.segs {
        if s.memsz == 0 {
            continue;
        }
        let mut data = b.bytes[s.offset as usize..(s.offset + s.filesz) as usize].to_vec();
        data.resize(s.memsz as usize, 0);
        v.push(Region { start: s.vaddr + base, data, perms: perms_of(s.flags), filesz: s.filesz, reloc_words: Vec::new() });
    }
    v.sort_by_key(|r| r.start);
    v
}

fn region_at(regions: &[Region], a: u64) -> Option<&Region> {
    let i = regions.partition_point(|r| r.start <= a);
    if i == 0 {
        return None;
    }
    let r = &regions[i - 1];
    if a < r.end() {
        Some(r)
    } else {
        None
    }
}

/// Compare falcon's memory with the expected regions: every mapped byte is expected with the right
/// value and permissions, every expected byte is mapped, nothing else is.
fn compare_memory(mem: &Memory, regions: &[Region], pfx: &str, fails: &mut Vec<Failure>) {
    let secs: Vec<(u64, &[u8], u32)> = mem.sections().iter().map(|(a, s)| (*a, s.data(), s.permissions().bits())).collect();
    let mut last_end: Option<u64> = None;
    let mut total: u64 = 0;
    for (a, data, perms) in &secs {
        if let Some(e) = last_end {
            if *a < e {
                fails.push(Failure::new(format!("{}|sections-overlap", pfx), format!("section at 0x{:x} overlaps the previous one ending at 0x{:x}", a, e)));
                return;
            }
        }
        let end = match a.checked_add(data.len() as u64) {
            Some(e) => e,
            None => {
                fails.push(Failure::new(format!("{}|extra", pfx), format!("section at 0x{:x} of {} bytes wraps the address space", a, data.len())));
                return;
            }
        };
        last_end = Some(end);
        total += data.len() as u64;
        let mut cur = *a;
        while cur < end {
            let r = match region_at(regions, cur) {
                Some(r) => r,
                None => {
                    fails.push(Failure::new(format!("{}|extra", pfx), format!("address 0x{:x} is mapped (section 0x{:x}+0x{:x}) but belongs to no loadable segment", cur, a, data.len())));
                    return;
                }
            };
            let n = end.min(r.end()) - cur;
            if *perms != r.perms {
                fails.push(Failure::new(format!("{}|permissions", pfx), format!("permissions at 0x{:x} are {:03b} (XWR as falcon bits), the segment says {:03b}", cur, perms, r.perms)));
                return;
            }
            let got = &data[(cur - a) as usize..(cur - a + n) as usize];
            let want = &r.data[(cur - r.start) as usize..(cur - r.start + n) as usize];
            if got != want {
                let k = got.iter().zip(want.iter()).position(|(x, y)| x != y).unwrap() as u64;
                let off = cur - r.start + k;
                let what = if r.reloc_words.iter().any(|(o, l)| off >= *o && off < o + l) {
                    "reloc-word"
                } else if off < r.filesz {
                    "bytes|file"
                } else {
                    "bytes|zero-fill"
                };
                fails.push(Failure::new(
                    format!("{}|{}", pfx, what),
                    format!("byte at 0x{:x} (segment offset 0x{:x}, filesz 0x{:x}, memsz 0x{:x}) is 0x{:02x}, expected 0x{:02x}", cur + k, off, r.filesz, r.data.len(), got[k as usize], want[k as usize]),
                ));
                return;
            }
            cur += n;
        }
    }
    let want_total: u64 = regions.iter().map(|r| r.data.len() as u64).sum();
    if total != want_total {
        // find a missing address
        for r in regions {
            let mut cur = r.start;
            while cur < r.end() {
                match secs.iter().find(|(a, d, _)| *a <= cur && cur < a + d.len() as u64) {
                    Some((a, d, _)) => cur = a + d.len() as u64,
                    None => {
                        fails.push(Failure::new(
                            format!("{}|missing", pfx),
                            format!("address 0x{:x} (segment offset 0x{:x} of 0x{:x}, filesz 0x{:x}) is not mapped", cur, cur - r.start, r.data.len(), r.filesz),
                        ));
                        return;
                    }
                }
            }
        }
        fails.push(Failure::new(format!("{}|extra", pfx), format!("{} bytes mapped, {} expected", total, want_total)));
        return;
    }
    // the same through the byte API, at both ends of every region, in the gaps and far away
    let mut probes: Vec<u64> = vec![0, 1, u64::MAX, 0xffff_ffff, 0x1_0000_0000];
    for (i, r) in regions.iter().enumerate() {
        probes.extend([r.start, r.end() - 1, r.end(), r.end() + 1, r.start + r.filesz, (r.start + r.filesz).saturating_sub(1)]);
        if r.start > 0 {
            probes.push(r.start - 1);
        }
        if r.start >= PAGE {
            probes.push(r.start - PAGE);
            probes.push(r.start & !(PAGE - 1));
        }
        probes.push((r.end() + PAGE - 1) & !(PAGE - 1));
        if let Some(nx) = regions.get(i + 1) {
            probes.push(r.end() + (nx.start - r.end()) / 2);
        }
    }
    for a in probes {
        let want = region_at(regions, a).map(|r| (r.data[(a - r.start) as usize], r.perms));
        let got8 = match guard(|| mem.get8(a)) {
            Ok(g) => g,
            Err(pi) => {
                fails.push(Failure::new(format!("{}|get8|panic", pfx), format!("get8(0x{:x}) panicked: {}", a, pi.msg)));
                return;
            }
        };
        let gotp = match guard(|| mem.permissions(a)) {
            Ok(g) => g.map(|p| p.bits()),
            Err(pi) => {
                fails.push(Failure::new(format!("{}|permissions|panic", pfx), format!("permissions(0x{:x}) panicked: {}", a, pi.msg)));
                return;
            }
        };
        if got8 != want.map(|w| w.0) || gotp != want.map(|w| w.1) {
            let what = match (got8, want) {
                (Some(_), None) => "extra",
                (None, Some(_)) => "missing",
                _ if gotp != want.map(|w| w.1) => "permissions",
                _ => "bytes|probe",
            };
            fails.push(Failure::new(format!("{}|{}", pfx, what), format!("probe 0x{:x}: get8 {:x?} permissions {:?}, expected {:x?}", a, got8, gotp, want)));
            return;
        }
    }
}

/// address (base 0) -> reasons it is a function entry, per the property text
fn expected_entries(b: &Built, user: &[u64]) -> BTreeMap<u64, Vec<&'static str>> {
    let mut exp: BTreeMap<u64, Vec<&'static str>> = BTreeMap::new();
    exp.entry(b.entry).or_default().push("program-entry");
    for u in user {
        exp.entry(*u).or_default().push("user-entry");
    }
    for s in b.symtab.iter().skip(1).chain(b.dynsyms.iter().skip(1)) {
        if s.typ == STT_FUNC && s.shndx != 0 {
            // address 0 is the first byte of a segment's own contents (not of the ELF header or a
            // table) and the symbol is section-relative
            let zero_mapped = s.shndx != SHN_ABS && b.segs.iter().any(|g| g.vaddr == 0 && g.fill_start == 0 && g.memsz > 0);
            exp.entry(s.value).or_default().push(if s.value != 0 {
                "defined-func"
            } else if zero_mapped {
                "defined-func-at-zero"
            } else {
                "defined-func-at-unmapped-zero"
            });
        }
    }
    exp
}

/// Is reporting this address demanded?  Not asserted either way: address 0 when the only reasons
/// are e_entry == 0 (which also means "no entry point") and/or a FUNC symbol that is formally
/// defined (st_shndx != 0) but has the value 0 although address 0 is not the start of a segment's
/// own contents (such a symbol does not lie in the section it names).
fn entry_required(a: u64, why: &[&'static str]) -> bool {
    !(a == 0 && why.iter().all(|w| *w == "program-entry" || *w == "defined-func-at-unmapped-zero"))
}

fn check_entries(b: &Built, user: &[u64], base: u64, got: &BTreeSet<u64>, pfx: &str, fails: &mut Vec<Failure>) {
    let exp = expected_entries(b, user);
    for (a, why) in &exp {
        if !entry_required(*a, why) {
            continue;
        }
        if !got.contains(&(a + base)) {
            fails.push(Failure::new(
                format!("{}|missing|{}", pfx, why.iter().find(|w| **w != "defined-func-at-unmapped-zero").unwrap_or(&why[0])),
                format!("0x{:x} (= 0x{:x} + base 0x{:x}) is a function entry ({}) but function_entries() does not report it; reported: {:x?}", a + base, a, base, why.join(", "), got),
            ));
        }
    }
    for g in got {
        let a0 = g.wrapping_sub(base);
        if *g >= base && exp.contains_key(&a0) {
            continue;
        }
        let syms: Vec<&SymL> = b.symtab.iter().skip(1).chain(b.dynsyms.iter().skip(1)).filter(|s| s.value == a0).collect();
        // an expected address reported without the base?
        let kind = if exp.contains_key(g) && base != 0 {
            "not-rebased"
        } else if syms.iter().any(|s| s.typ == STT_FUNC && s.shndx == 0) {
            "undefined-func"
        } else if !syms.is_empty() {
            "non-func-symbol"
        } else {
            "unexplained"
        };
        fails.push(Failure::new(
            format!("{}|extra|{}", pfx, kind),
            format!("function_entries() reports 0x{:x} (0x{:x} before rebasing by 0x{:x}) which is not a defined FUNC symbol, the entry or a user entry", g, a0, base),
        ));
    }
}

/// Pick the failure to report: the first one that is not a recorded known finding.  When every
/// failure of the case is a known finding the case is counted as evaluated with an explicit
/// exclusion per signature instead of being returned as an error: the engine does not merge the
/// classes of a case that ends in a known-finding hit, and the un-rebased program entry alone
/// hits every case with a base != 0, which would leave the class statistics (and the floors)
/// empty.  Nothing is hidden: a known defect never masks another failure of the same case.
fn verdict(fails: Vec<Failure>, obs: &mut Obs) -> Result<(), Failure> {
    if fails.is_empty() {
        return Ok(());
    }
    if let Some(pos) = fails.iter().position(|f| !obs.known(&f.sig)) {
        return Err(fails.into_iter().nth(pos).unwrap());
    }
    let sigs: BTreeSet<String> = fails.into_iter().map(|f| f.sig).collect();
    for s in sigs {
        obs.exclude(&format!("known_finding:{}", s));
    }
    obs.class("known-finding-hit");
    Ok(())
}

fn arch_class(img: &Image) -> String {
    let m = match img.machine {
        EM_386 => "386",
        EM_X86_64 => "x86_64",
        EM_MIPS => "mips",
        EM_PPC => "ppc",
        EM_AARCH64 => "aarch64",
        _ => "other",
    };
    format!("arch-{}-{}{}", m, if img.class64 { 64 } else { 32 }, if img.big { "be" } else { "le" })
}

// ---------------------------------------------------------------------------------------------
// single image

fn check_single(img: &Image, base: u64, user_model: &[Addr], obs: &mut Obs) -> Result<(), Failure> {
    let b = match build(img) {
        Some(b) => b,
        None => {
            obs.exclude("model-not-expressible");
            return Ok(());
        }
    };
    let limit: u64 = if img.class64 { 1 << 63 } else { 1 << 32 };
    if b.image_end().checked_add(base).map(|e| e > limit).unwrap_or(true) {
        obs.exclude("image-plus-base-exceeds-address-space");
        return Ok(());
    }
    // user entries as base-0 addresses (resolved like any other model address)
    let user: Vec<u64> = user_model.iter().map(|a| resolve_addr(&b.segs, img.class64, a)).collect();

    // ---- classes --------------------------------------------------------------------------------
    obs.class(&arch_class(img));
    obs.class(if img.class64 { "elf64" } else { "elf32" });
    obs.class(if img.big { "msb" } else { "lsb" });
    obs.class(&format!("segments-{}", b.segs.len()));
    for s in &b.segs {
        obs.count(&format!("segment-flags-{}{}{}", if s.flags & PF_R != 0 { "r" } else { "-" }, if s.flags & PF_W != 0 { "w" } else { "-" }, if s.flags & PF_X != 0 { "x" } else { "-" }), 1);
        if s.memsz > s.filesz && s.filesz > 0 {
            obs.class("segment-with-zero-fill");
        }
        if s.memsz > 0 && s.filesz == 0 {
            obs.class("segment-all-zero-fill");
        }
        if s.memsz == 0 {
            obs.class("segment-empty");
        }
        if s.vaddr % PAGE != 0 {
            obs.class("segment-vaddr-inside-page");
        }
        if s.memsz > PAGE {
            obs.class("segment-multi-page");
        }
    }
    if b.segs.windows(2).any(|w| w[1].vaddr / PAGE == (w[0].vaddr + w[0].memsz.max(1) - 1) / PAGE + 1) {
        obs.class("segments-on-adjacent-pages");
    }
    if !img.hdr_in_first {
        obs.class("headers-not-loaded");
    }
    if !img.shdrs {
        obs.class("no-section-headers");
    }
    obs.class(match base {
        0 => "base-0",
        0x1000 => "base-0x1000",
        0x4000_0000 => "base-0x40000000",
        x if x % PAGE == 0 => "base-random-page",
        _ => "base-unaligned",
    });
    if b.phdrs.iter().any(|p| p.ptype != PT_LOAD) {
        obs.class("non-load-program-headers");
    }
    if img.dynamic.is_some() {
        obs.class("dynamic");
    }
    if !b.plt.is_empty() {
        obs.class("plt-relocations");
    }
    if b.symtab.len() > 1 {
        obs.class("symtab");
    }
    if b.dynsyms.len() > 1 {
        obs.class("dynsym");
    }
    if !user.is_empty() {
        obs.class("user-entries");
    }
    let all_syms: Vec<&SymL> = b.symtab.iter().skip(1).chain(b.dynsyms.iter().skip(1)).collect();
    let mut kinds: BTreeSet<(u8, u8, bool, bool)> = BTreeSet::new();
    for s in &all_syms {
        kinds.insert((s.typ, s.bind, s.shndx != 0, s.value != 0));
        if s.typ == STT_FUNC && s.shndx == 0 && s.value != 0 {
            obs.class("sym-undefined-func-nonzero");
        }
        if s.typ == STT_FUNC && s.shndx != 0 && s.value == 0 {
            obs.class(if s.shndx != SHN_ABS && b.segs.iter().any(|g| g.vaddr == 0 && g.fill_start == 0 && g.memsz > 0) { "sym-defined-func-at-mapped-zero" } else { "sym-defined-func-at-unmapped-zero" });
        }
        if s.typ == STT_FUNC && s.shndx != 0 && s.value != 0 {
            obs.class("sym-defined-func");
        }
        if s.typ != STT_FUNC && s.shndx != 0 && s.value != 0 {
            obs.class("sym-defined-non-func");
        }
        if s.shndx == 0 && s.value == 0 {
            obs.class("sym-undefined-zero");
        }
        if s.bind == STB_WEAK {
            obs.class("sym-weak");
        }
        if s.bind == STB_LOCAL {
            obs.class("sym-local");
        }
        if s.shndx == SHN_ABS {
            obs.class("sym-absolute");
        }
    }
    if b.entry == 0 {
        obs.class("entry-zero");
    }

    let mut fails: Vec<Failure> = Vec::new();

    // ---- load at base -----------------------------------------------------------------------
    let load = |bs: u64| -> Result<Result<Elf, String>, Failure> {
        match guard(|| {
            Elf::new(b.bytes.clone(), bs).map(|mut e| {
                for u in &user {
                    e.add_user_function(*u);
                }
                e
            })
        }) {
            Ok(Ok(e)) => Ok(Ok(e)),
            Ok(Err(e)) => Ok(Err(format!("{}", e))),
            Err(pi) => Err(Failure::new("C19|new|panic", format!("Elf::new(.., 0x{:x}) panicked: {} ({}:{})", bs, pi.msg, pi.file, pi.line))),
        }
    };
    let arch = expected_arch(img);
    let loaded = load(base)?;
    let (want_name, want_big) = match arch {
        Some(a) => a,
        None => {
            // EM_PPC little endian: falcon has no such architecture and says so with an error
            obs.class("unsupported-ppc-le");
            obs.exclude("powerpc-little-endian-not-supported-by-falcon");
            return Ok(());
        }
    };
    let elf = match loaded {
        Ok(e) => e,
        Err(msg) => fv::fail!("C19|new|rejected", "Elf::new rejected a well-formed image: {}", msg),
    };
    if elf.architecture().name() != want_name {
        fails.push(Failure::new("C19|arch|name", format!("architecture() is {}, the header names {}", elf.architecture().name(), want_name)));
    }
    let got_big = elf.architecture().endian() == Endian::Big;
    if got_big != want_big {
        fails.push(Failure::new("C19|arch|endian", format!("architecture().endian() is {}, EI_DATA says {}", if got_big { "big" } else { "little" }, if want_big { "big" } else { "little" })));
    }

    // memory
    let regions = regions_of(&b, base);
    let mem = match guard(|| elf.memory()) {
        Ok(Ok(m)) => Some(m),
        Ok(Err(e)) => {
            fails.push(Failure::new("C19|memory|error", format!("memory() failed on a well-formed image: {}", e)));
            None
        }
        Err(pi) => {
            fails.push(Failure::new("C19|memory|panic", format!("memory() panicked: {} ({}:{})", pi.msg, pi.file, pi.line)));
            None
        }
    };
    if let Some(mem) = &mem {
        compare_memory(mem, &regions, "C19|memory", &mut fails);
        // the memory model's word order is the header's
        if let Some(r) = regions.iter().find(|r| r.data.len() >= 4 && r.data[..4].iter().collect::<BTreeSet<_>>().len() > 1) {
            let w = [r.data[0], r.data[1], r.data[2], r.data[3]];
            let want = if want_big { u32::from_be_bytes(w) } else { u32::from_le_bytes(w) };
            if let Ok(Some(g)) = guard(|| mem.get32(r.start)) {
                if g != want {
                    fails.push(Failure::new("C19|memory|endian", format!("get32(0x{:x}) = 0x{:08x}; bytes {:02x?} read {} endian are 0x{:08x}", r.start, g, w, if want_big { "big" } else { "little" }, want)));
                }
            }
        }
    }

    // The same image through ElfLinker without relocation (every machine, not only the two the
    // linking cases use): the memory it builds has the header's word order and the image's bytes.
    let no_deps = img.dynamic.as_ref().map(|d| d.needed.is_empty()).unwrap_or(true);
    if base == 0 && no_deps && engine::fingerprint(&b.bytes) % 12 == 0 {
        let dir = engine::verif_dir().join("work").join("C19").join(format!("single-{}-{}", std::process::id(), SCRATCH_SEQ.fetch_add(1, std::sync::atomic::Ordering::Relaxed)));
        if std::fs::create_dir_all(&dir).is_ok() {
            let _scratch = Scratch(dir.clone());
            let file = dir.join("image.elf");
            if std::fs::write(&file, &b.bytes).is_ok() {
                if let Ok(Ok(linker)) = guard(|| ElfLinkerBuilder::new(file.clone()).do_relocations(false).link()) {
                    obs.class("single-image-through-elf-linker");
                    let lb = linker.loaded().values().next().map(|e| e.base_address()).unwrap_or(0);
                    if let (Ok(Ok(lm)), Some(r)) = (guard(|| linker.memory()), regions.iter().find(|r| r.data.len() >= 4 && r.data[..4].iter().collect::<BTreeSet<_>>().len() > 1)) {
                        let w = [r.data[0], r.data[1], r.data[2], r.data[3]];
                        let want = if want_big { u32::from_be_bytes(w) } else { u32::from_le_bytes(w) };
                        if let Ok(Some(g)) = guard(|| lm.get32(r.start + lb)) {
                            if g != want {
                                fails.push(Failure::new("C19|linker|memory|endian", format!("ElfLinker (no relocation) get32(0x{:x}) = 0x{:08x}; bytes {:02x?} read {} endian are 0x{:08x}", r.start + lb, g, w, if want_big { "big" } else { "little" }, want)));
                            }
                        }
                    }
                }
            }
        }
    }

    // function entries
    let entries_at = |e: &Elf, what: &str| -> Result<BTreeSet<u64>, Failure> {
        match guard(|| e.function_entries()) {
            Ok(Ok(v)) => Ok(v.iter().map(|f| f.address()).collect()),
            Ok(Err(err)) => Err(Failure::new("C19|function_entries|error", format!("function_entries() ({}) failed: {}", what, err))),
            Err(pi) => Err(Failure::new("C19|function_entries|panic", format!("function_entries() ({}) panicked: {} ({}:{})", what, pi.msg, pi.file, pi.line))),
        }
    };
    let fe_b = match entries_at(&elf, "at base") {
        Ok(s) => Some(s),
        Err(f) => {
            fails.push(f);
            None
        }
    };
    if let Some(fe) = &fe_b {
        check_entries(&b, &user, base, fe, "C19|function_entries", &mut fails);
    }
    // the same question on another history: the entries are looked at once, THEN the user gives
    // its entries; what is reported afterwards is judged by the same rule
    if !user.is_empty() {
        obs.class("user-entries-given-after-a-first-look");
        match guard(|| Elf::new(b.bytes.clone(), base)) {
            Ok(Ok(mut late)) => {
                let before = entries_at(&late, "before the user entries");
                for u in &user {
                    late.add_user_function(*u);
                }
                match (before, entries_at(&late, "user entries given after a first look")) {
                    (Ok(_), Ok(fe)) => check_entries(&b, &user, base, &fe, "C19|function_entries|users-after-first-look", &mut fails),
                    (Err(f), _) | (_, Err(f)) => fails.push(f),
                }
            }
            Ok(Err(_)) => {}
            Err(_) => {}
        }
    }

    // ---- the same file at base 0: everything must be exactly `base` lower ---------------------
    let syms_of = |e: &Elf| -> Result<(BTreeSet<(String, u64)>, BTreeSet<(String, u64)>), Failure> {
        match guard(|| (e.symbols(), e.exported_symbols())) {
            Ok((s, x)) => Ok((s.iter().map(|s| (s.name().to_string(), s.address())).collect(), x.iter().map(|s| (s.name().to_string(), s.address())).collect())),
            Err(pi) => Err(Failure::new("C19|symbols|panic", format!("symbols() panicked: {} ({}:{})", pi.msg, pi.file, pi.line))),
        }
    };
    let sy_b = match syms_of(&elf) {
        Ok(s) => Some(s),
        Err(f) => {
            fails.push(f);
            None
        }
    };
    if base != 0 {
        let elf0 = match load(0)? {
            Ok(e) => e,
            Err(msg) => fv::fail!("C19|new|rejected", "Elf::new(.., 0) rejected the image that base 0x{:x} accepted: {}", base, msg),
        };
        // program entry
        let (p0, pb) = (elf0.program_entry(), elf.program_entry());
        if p0 != b.entry {
            fails.push(Failure::new("C19|program_entry|base0", format!("program_entry() at base 0 is 0x{:x}, e_entry is 0x{:x}", p0, b.entry)));
        }
        if pb != p0.wrapping_add(base) {
            fails.push(Failure::new("C19|rebase|program_entry", format!("program_entry() is 0x{:x} at base 0 and 0x{:x} at base 0x{:x}: not {} higher", p0, pb, base, base)));
        }
        // sections
        if let (Some(mb), Ok(Ok(m0))) = (&mem, guard(|| elf0.memory())) {
            let s0: Vec<(u64, usize, u32)> = m0.sections().iter().map(|(a, s)| (a + base, s.len(), s.permissions().bits())).collect();
            let sb: Vec<(u64, usize, u32)> = mb.sections().iter().map(|(a, s)| (*a, s.len(), s.permissions().bits())).collect();
            if s0 != sb {
                fails.push(Failure::new("C19|rebase|sections", format!("memory sections at base 0 shifted by 0x{:x} are {:x?}, at the base they are {:x?}", base, s0, sb)));
            } else if m0.sections().values().zip(mb.sections().values()).any(|(x, y)| x.data() != y.data()) {
                fails.push(Failure::new("C19|rebase|section-data", "the same section holds different bytes at base 0 and at the base".to_string()));
            }
        }
        // entries
        if let (Some(fb), Ok(f0)) = (&fe_b, entries_at(&elf0, "at base 0")) {
            let shifted: BTreeSet<u64> = f0.iter().map(|a| a + base).collect();
            if &shifted != fb {
                fails.push(Failure::new(
                    "C19|rebase|function_entries",
                    format!("function entries at base 0 shifted by 0x{:x}: {:x?}; at the base: {:x?}", base, shifted, fb),
                ));
            }
        }
        // symbols
        if let (Some((sb, xb)), Ok((s0, x0))) = (&sy_b, syms_of(&elf0)) {
            let shifted: BTreeSet<(String, u64)> = s0.iter().map(|(n, a)| (n.clone(), a + base)).collect();
            if &shifted != sb {
                // which table does a symbol that was not shifted come from (by the model)?
                let missing: Vec<&(String, u64)> = shifted.difference(sb).collect();
                let unexpected: Vec<&(String, u64)> = sb.difference(&shifted).collect();
                let source = |n: &String, a0: u64| -> &'static str {
                    let in_sym = b.symtab.iter().skip(1).any(|s| &s.name == n && s.value == a0);
                    let in_dyn = b.dynsyms.iter().skip(1).any(|s| &s.name == n && s.value == a0);
                    let in_plt = b.plt.iter().any(|r| r.r_offset == a0 && b.dynsyms.get(r.sym).map(|s| &s.name == n).unwrap_or(false));
                    // every discrepancy that a PLT relocation (name, r_offset) can explain is
                    // attributed to it; the signature names another source if any is left over
                    if in_plt {
                        "plt-reloc"
                    } else if in_sym {
                        "symtab"
                    } else if in_dyn {
                        "dynsym"
                    } else {
                        "other"
                    }
                };
                let mut srcs: BTreeSet<&'static str> = BTreeSet::new();
                for (n, a) in &missing {
                    srcs.insert(source(n, a - base));
                }
                for (n, a) in &unexpected {
                    // reported at the base without having been shifted
                    let in_plt = b.plt.iter().any(|r| r.r_offset == *a && b.dynsyms.get(r.sym).map(|s| &s.name == n).unwrap_or(false));
                    srcs.insert(if in_plt { "plt-reloc" } else { source(n, *a) });
                }
                let src = ["symtab", "dynsym", "other", "plt-reloc"].iter().find(|s| srcs.contains(**s)).unwrap();
                fails.push(Failure::new(
                    format!("C19|rebase|symbols|{}", src),
                    format!(
                        "symbols() at base 0x{:x} is not symbols() at base 0 shifted: missing {:x?}, unexpected {:x?}",
                        base,
                        missing.iter().take(4).collect::<Vec<_>>(),
                        unexpected.iter().take(4).collect::<Vec<_>>()
                    ),
                ));
            }
            let xshift: BTreeSet<(String, u64)> = x0.iter().map(|(n, a)| (n.clone(), a + base)).collect();
            if &xshift != xb {
                fails.push(Failure::new("C19|rebase|exported_symbols", format!("exported_symbols() at base 0x{:x}: {:x?}; base 0 shifted: {:x?}", base, xb, xshift)));
            }
        }
    } else {
        let p0 = elf.program_entry();
        if p0 != b.entry {
            fails.push(Failure::new("C19|program_entry|base0", format!("program_entry() at base 0 is 0x{:x}, e_entry is 0x{:x}", p0, b.entry)));
        }
    }

    // non-trivial: >= 2 segments with memsz > filesz in one, base != 0, >= 3 kinds of symbols
    if b.segs.len() >= 2 && b.segs.iter().any(|s| s.memsz > s.filesz) && base != 0 && kinds.len() >= 3 {
        obs.class("nontrivial");
        obs.nontrivial(&(
            img.machine,
            img.class64,
            img.big,
            b.segs.iter().map(|s| (s.flags, s.memsz > s.filesz, s.filesz == 0)).collect::<Vec<_>>(),
            kinds.iter().copied().collect::<Vec<_>>(),
            base.trailing_zeros().min(31),
            !b.plt.is_empty(),
            user.len(),
        ));
    }
    if obs.want_sample() {
        obs.sample(render(&Case::Single { image: img.clone(), base, user: user_model.to_vec() }));
    }
    // the un-rebased program entry shows on every image loaded at a base != 0: report it last so
    // that a reproduction of another defect replays under its own signature
    fails.sort_by_key(|f| f.sig == "C19|rebase|program_entry");
    verdict(fails, obs)
}

// ---------------------------------------------------------------------------------------------
// linked objects

static SCRATCH_SEQ: std::sync::atomic::AtomicU64 = std::sync::atomic::AtomicU64::new(0);

struct Scratch(std::path::PathBuf);

impl Drop for Scratch {
    fn drop(&mut self) {
        // only the case's own directory: work/C19 itself belongs to the supervisor (it holds the
        // shard results and heartbeats, and the supervisor replays reproductions before it spawns
        // the workers)
        let _ = std::fs::remove_dir_all(&self.0);
    }
}

fn check_link(objs: &[Obj], obs: &mut Obs) -> Result<(), Failure> {
    if objs.len() < 2 || objs.len() > 3 {
        obs.exclude("link-model-invalid");
        return Ok(());
    }
    let mips = objs[0].image.machine == EM_MIPS;
    let big = objs[0].image.big;
    let mut builts: Vec<Built> = Vec::new();
    for o in objs {
        let i0 = &objs[0].image;
        let arch_ok = (o.image.machine == EM_386 && !o.image.big) || o.image.machine == EM_MIPS;
        if !arch_ok || o.image.machine != i0.machine || o.image.big != i0.big || o.image.class64 || !o.image.shdrs || o.image.dynamic.is_none() {
            obs.exclude("link-model-invalid");
            return Ok(());
        }
        let d = o.image.dynamic.as_ref().unwrap();
        if o.image.machine == EM_MIPS && (d.mips_got.is_none() || !d.plt.is_empty() || d.rel.iter().any(|r| r.kind != RelKind::Relative)) {
            obs.exclude("link-model-invalid");
            return Ok(());
        }
        match build(&o.image) {
            Some(b) => builts.push(b),
            None => {
                obs.exclude("model-not-expressible");
                return Ok(());
            }
        }
    }
    // validity of the model (it may have been simplified): every symbol named by a relocation has
    // exactly one visible definition, with a non-zero value; images are small enough not to collide
    let exported = |b: &Built| -> Vec<(String, u64)> {
        b.dynsyms.iter().skip(1).filter(|s| s.shndx != 0 && (s.bind == STB_GLOBAL || s.bind == STB_WEAK)).map(|s| (s.name.clone(), s.value)).collect()
    };
    let mut defs: BTreeMap<String, Vec<(usize, u64)>> = BTreeMap::new();
    for (k, b) in builts.iter().enumerate() {
        for (n, v) in exported(b) {
            defs.entry(n).or_default().push((k, v));
        }
    }
    let file_idx: BTreeMap<&str, usize> = objs.iter().enumerate().map(|(k, o)| (o.file.as_str(), k)).collect();
    let needed_of = |k: usize| -> Vec<usize> { objs[k].image.dynamic.as_ref().unwrap().needed.iter().filter_map(|n| file_idx.get(n.as_str()).copied()).collect() };
    for k in 0..objs.len() {
        let d = objs[k].image.dynamic.as_ref().unwrap();
        if d.needed.iter().any(|n| !file_idx.contains_key(n.as_str())) {
            obs.exclude("link-model-invalid");
            return Ok(());
        }
        // visible: itself, main, transitive DT_NEEDED
        let mut vis: BTreeSet<usize> = [k, 0].into_iter().collect();
        let mut todo = vec![k];
        while let Some(x) = todo.pop() {
            for y in needed_of(x) {
                if vis.insert(y) {
                    todo.push(y);
                }
            }
        }
        let mut named: Vec<&String> = builts[k].plt.iter().chain(builts[k].rel.iter()).filter(|r| r.kind != RelKind::Relative).map(|r| &builts[k].dynsyms[r.sym].name).collect();
        if let Some(g) = &builts[k].got {
            // every dynamic symbol with a GOT entry names a symbol
            named.extend(builts[k].dynsyms[g.gotsym..].iter().map(|s| &s.name));
        }
        for name in named {
            match defs.get(name) {
                Some(v) if v.len() == 1 && v[0].1 != 0 && vis.contains(&v[0].0) && !name.is_empty() => {}
                _ => {
                    obs.exclude("link-model-invalid");
                    return Ok(());
                }
            }
        }
    }
    // every object reachable from main
    {
        let mut reach: BTreeSet<usize> = [0].into_iter().collect();
        let mut todo = vec![0];
        while let Some(x) = todo.pop() {
            for y in needed_of(x) {
                if reach.insert(y) {
                    todo.push(y);
                }
            }
        }
        if reach.len() != objs.len() {
            obs.exclude("link-model-invalid");
            return Ok(());
        }
    }

    obs.class("link");
    obs.class(&format!("link-objects-{}", objs.len()));
    let mut kinds: BTreeSet<RelKind> = BTreeSet::new();
    for b in &builts {
        for r in b.plt.iter().chain(b.rel.iter()) {
            kinds.insert(r.kind);
        }
    }
    for k in &kinds {
        obs.class(&format!("link-{}-reloc-{:?}", if mips { "mips" } else { "386" }, k));
    }
    obs.class(if mips { "link-mips-got" } else { "link-386" });

    // ---- write the files ------------------------------------------------------------------------
    let dir = engine::verif_dir().join("work").join("C19").join(format!("link-{}-{}", std::process::id(), SCRATCH_SEQ.fetch_add(1, std::sync::atomic::Ordering::Relaxed)));
    if let Err(e) = std::fs::create_dir_all(&dir) {
        panic!("cannot create scratch directory {}: {}", dir.display(), e);
    }
    let _scratch = Scratch(dir.clone());
    for (o, b) in objs.iter().zip(builts.iter()) {
        if let Err(e) = std::fs::write(dir.join(&o.file), &b.bytes) {
            panic!("cannot write {}: {}", o.file, e);
        }
    }
    let linker = match guard(|| ElfLinkerBuilder::new(dir.join(&objs[0].file)).ld_paths(Some(vec![dir.clone()])).link()) {
        Ok(Ok(l)) => l,
        Ok(Err(e)) => fv::fail!("C19|linker|link-error", "ElfLinker failed on well-formed objects whose imports all resolve: {}", e),
        Err(pi) => fv::fail!("C19|linker|panic", "ElfLinker panicked: {} ({}:{})", pi.msg, pi.file, pi.line),
    };
    let mut fails: Vec<Failure> = Vec::new();
    if objs.iter().any(|o| o.image.dynamic.as_ref().map(|d| d.needed_spread && d.needed.len() >= 2).unwrap_or(false)) {
        obs.class("link-dt-needed-spread-among-other-tags");
    }
    // where did each object go?
    let mut bases: Vec<u64> = Vec::new();
    for o in objs {
        match linker.loaded().get(&o.file) {
            Some(e) => bases.push(e.base_address()),
            None => fv::fail!("C19|linker|object-not-loaded", "{} is named by DT_NEEDED but was not loaded (loaded: {:?})", o.file, linker.loaded().keys().collect::<Vec<_>>()),
        }
    }
    if linker.loaded().len() != objs.len() {
        fv::fail!("C19|linker|extra-object", "loaded {:?}, expected {:?}", linker.loaded().keys().collect::<Vec<_>>(), objs.iter().map(|o| &o.file).collect::<Vec<_>>());
    }
    for (k, b) in builts.iter().enumerate() {
        if b.image_end() + bases[k] > 1 << 32 {
            obs.exclude("image-plus-base-exceeds-address-space");
            return Ok(());
        }
    }
    // images must not collide (the linker chooses the bases; the property does not say how)
    {
        let mut spans: Vec<(u64, u64)> = builts.iter().zip(bases.iter()).flat_map(|(b, bs)| b.segs.iter().filter(|s| s.memsz > 0).map(move |s| (s.vaddr + bs, s.vaddr + bs + s.memsz))).collect();
        spans.sort();
        if spans.windows(2).any(|w| w[1].0 < w[0].1) {
            obs.exclude("linked-images-collide");
            return Ok(());
        }
    }
    let mem = match guard(|| linker.memory()) {
        Ok(Ok(m)) => m,
        Ok(Err(e)) => fv::fail!("C19|linker|memory|error", "memory() failed: {}", e),
        Err(pi) => fv::fail!("C19|linker|memory|panic", "memory() panicked: {}", pi.msg),
    };
    // expected image: every object at its base, relocated words patched
    let mut regions: Vec<Region> = Vec::new();
    for (b, bs) in builts.iter().zip(bases.iter()) {
        regions.extend(regions_of(b, *bs));
    }
    regions.sort_by_key(|r| r.start);
    // every word the linker must produce: (address, wanted value or None = reserved GOT entry that
    // names no symbol, kind, definition it names, description)
    struct Word {
        at: u64,
        want: Option<u32>,
        kind: String,
        def: Option<(usize, u64)>,
        what: String,
    }
    let mut words: Vec<Word> = Vec::new();
    for (k, b) in builts.iter().enumerate() {
        for r in b.plt.iter().chain(b.rel.iter()) {
            let at = r.r_offset + bases[k];
            if r.kind == RelKind::Relative {
                words.push(Word {
                    at,
                    want: Some((r.addend + bases[k]) as u32),
                    kind: "relative".into(),
                    def: None,
                    what: format!("{} word (link-time value 0x{:x}) of {} loaded at 0x{:x}", if mips { "R_MIPS_REL32" } else { "R_386_RELATIVE" }, r.addend, objs[k].file, bases[k]),
                });
            } else {
                let name = &b.dynsyms[r.sym].name;
                let (def_obj, value) = defs[name][0];
                words.push(Word {
                    at,
                    want: Some((value + bases[def_obj]) as u32),
                    kind: format!("{:?}", r.kind),
                    def: Some((def_obj, value)),
                    what: format!("{:?} word in {} naming {} = {} (st_value 0x{:x}) loaded at 0x{:x}", r.kind, objs[k].file, name, objs[def_obj].file, value, bases[def_obj]),
                });
            }
        }
        if let Some(g) = &b.got {
            for (i, init) in g.init.iter().enumerate() {
                let at = g.addr + 4 * i as u64 + bases[k];
                if i < 2 {
                    // GOT[0] (lazy resolver) and GOT[1] (module pointer) belong to the run-time linker
                    words.push(Word { at, want: None, kind: "got-reserved".into(), def: None, what: String::new() });
                } else if (i as u64) < g.local_gotno {
                    words.push(Word {
                        at,
                        want: Some((*init as u64 + bases[k]) as u32),
                        kind: "got-local".into(),
                        def: None,
                        what: format!("local GOT entry {} (link-time value 0x{:x}) of {} loaded at 0x{:x}", i, init, objs[k].file, bases[k]),
                    });
                } else {
                    let sym = &b.dynsyms[g.gotsym + (i - g.local_gotno as usize)];
                    let (def_obj, value) = defs[&sym.name][0];
                    words.push(Word {
                        at,
                        want: Some((value + bases[def_obj]) as u32),
                        kind: "got-global".into(),
                        def: Some((def_obj, value)),
                        what: format!("global GOT entry {} of {} for {} = {} (st_value 0x{:x}) loaded at 0x{:x}", i, objs[k].file, sym.name, objs[def_obj].file, value, bases[def_obj]),
                    });
                }
            }
        }
    }
    let nrel = words.iter().filter(|w| w.want.is_some()).count();
    for w in &words {
        let got = guard(|| mem.get32(w.at)).ok().flatten();
        let want = match w.want {
            Some(v) => v,
            None => match got {
                Some(g) => g, // not asserted: take what is there
                None => continue,
            },
        };
        if got != Some(want) {
            let sig = match w.def {
                None => format!("C19|linker|{}|wrong", w.kind),
                Some((def_obj, value)) => {
                    if bases[def_obj] != 0 && got == Some((value + 2 * bases[def_obj]) as u32) {
                        "C19|linker|reloc|symbol-rebased-twice".to_string()
                    } else {
                        format!("C19|linker|reloc|{}|wrong", w.kind)
                    }
                }
            };
            fails.push(Failure::new(sig, format!("word at 0x{:x} is {:x?}, expected 0x{:08x}: {}", w.at, got, want, w.what)));
        }
        // patch the expectation with what the property demands
        if let Some(reg) = regions.iter_mut().find(|g| g.start <= w.at && w.at + 4 <= g.end()) {
            let off = (w.at - reg.start) as usize;
            reg.data[off..off + 4].copy_from_slice(&if big { want.to_be_bytes() } else { want.to_le_bytes() });
            reg.reloc_words.push((off as u64, 4));
        }
    }
    compare_memory(&mem, &regions, "C19|linker|memory", &mut fails);
    // a wrong relocated word is reported once, by its own signature
    if fails.iter().any(|f| f.sig.starts_with("C19|linker|") && f.sig.ends_with("|wrong") || f.sig == "C19|linker|reloc|symbol-rebased-twice") {
        fails.retain(|f| f.sig != "C19|linker|memory|reloc-word");
    }

    // function entries of the linked program: those of every object at its base
    match guard(|| linker.function_entries()) {
        Ok(Ok(v)) => {
            let got: BTreeSet<u64> = v.iter().map(|f| f.address()).collect();
            let mut want: BTreeSet<u64> = BTreeSet::new();
            let mut optional: BTreeSet<u64> = BTreeSet::new();
            for (b, bs) in builts.iter().zip(bases.iter()) {
                for (a, why) in expected_entries(b, &[]) {
                    if !entry_required(a, &why) {
                        optional.insert(a + bs);
                    } else {
                        want.insert(a + bs);
                    }
                }
            }
            let missing: Vec<&u64> = want.difference(&got).collect();
            let extra: Vec<&u64> = got.iter().filter(|g| !want.contains(g) && !optional.contains(g)).collect();
            if !missing.is_empty() || !extra.is_empty() {
                fails.push(Failure::new("C19|linker|function_entries", format!("function_entries() of the linked program: missing {:x?}, unexpected {:x?} (object bases {:x?})", missing, extra, bases)));
            }
        }
        Ok(Err(e)) => fails.push(Failure::new("C19|linker|function_entries|error", format!("{}", e))),
        Err(pi) => fails.push(Failure::new("C19|linker|function_entries|panic", pi.msg)),
    }
    if linker.program_entry() != builts[0].entry + bases[0] {
        fails.push(Failure::new("C19|linker|program_entry", format!("program_entry() is 0x{:x}, the main program's entry is 0x{:x} + base 0x{:x}", linker.program_entry(), builts[0].entry, bases[0])));
    }
    if linker.architecture().name() != if !mips { "x86" } else if big { "mips" } else { "mipsel" } {
        fails.push(Failure::new("C19|linker|arch", format!("architecture() is {}", linker.architecture().name())));
    }

    if (kinds.len() >= 2 || mips) && nrel >= 2 && bases.iter().any(|b| *b != 0) {
        obs.class("nontrivial");
        obs.nontrivial(&("link", mips, big, objs.len(), kinds.iter().copied().collect::<Vec<_>>(), nrel.min(8), builts.iter().map(|b| b.segs.len()).collect::<Vec<_>>()));
    }
    if obs.want_sample() {
        obs.sample(render(&Case::Link { objs: objs.to_vec() }));
    }
    verdict(fails, obs)
}

fn check(case: &Case, obs: &mut Obs) -> Result<(), Failure> {
    // development aid: C19_DUMP_DIR=<dir> writes the image(s) of every case there (to look at them
    // with readelf); never set in a registered run
    {
        if let Ok(dir) = std::env::var("C19_DUMP_DIR") {
            let seq = SCRATCH_SEQ.fetch_add(1, std::sync::atomic::Ordering::Relaxed);
            let imgs: Vec<(String, &Image)> = match case {
                Case::Single { image, .. } => vec![("image".to_string(), image)],
                Case::Link { objs } => objs.iter().map(|o| (o.file.clone(), &o.image)).collect(),
            };
            for (name, img) in imgs {
                if let Some(b) = build(img) {
                    let _ = std::fs::write(std::path::Path::new(&dir).join(format!("{}-{}-{}", std::process::id(), seq, name)), &b.bytes);
                }
            }
        }
    }
    match case {
        Case::Single { image, base, user } => check_single(image, *base, user, obs),
        Case::Link { objs } => check_link(objs, obs),
    }
}

// ---------------------------------------------------------------------------------------------
// rendering and shrinking

fn render_image(img: &Image) -> String {
    let b = match build(img) {
        Some(b) => b,
        None => return "(model not expressible)".to_string(),
    };
    let mut s = format!(
        "ELF{} {} machine {} type {} entry 0x{:x}, {} bytes{}{}\n",
        if img.class64 { 64 } else { 32 },
        if img.big { "MSB" } else { "LSB" },
        img.machine,
        img.etype,
        b.entry,
        b.bytes.len(),
        if img.shdrs { "" } else { ", no section headers" },
        if img.hdr_in_first { "" } else { ", headers not in a segment" }
    );
    for p in &b.phdrs {
        s.push_str(&format!("  phdr type 0x{:x} flags {} offset 0x{:x} vaddr 0x{:x} filesz 0x{:x} memsz 0x{:x}\n", p.ptype, p.flags, p.offset, p.vaddr, p.filesz, p.memsz));
    }
    for (tab, name) in [(&b.symtab, ".symtab"), (&b.dynsyms, ".dynsym")] {
        for (k, y) in tab.iter().enumerate().skip(1) {
            s.push_str(&format!("  {}[{}] {:?} value 0x{:x} type {} bind {} shndx {}\n", name, k, y.name, y.value, y.typ, y.bind, y.shndx));
        }
    }
    for (rs, name) in [(&b.plt, "plt"), (&b.rel, "dyn")] {
        for r in rs.iter() {
            s.push_str(&format!("  {} reloc {:?} (type {}) at 0x{:x} sym {} addend 0x{:x}\n", name, r.kind, r.rtype, r.r_offset, r.sym, r.addend));
        }
    }
    if let Some(d) = &img.dynamic {
        s.push_str(&format!("  DT_NEEDED {:?} soname {:?}\n", d.needed, d.soname));
    }
    s
}

fn render(c: &Case) -> String {
    // never let a rendering problem take the worker down
    match guard(|| render_inner(c)) {
        Ok(s) => s,
        Err(pi) => format!("(rendering failed: {} at {}:{})\n{:?}", pi.msg, pi.file, pi.line, c),
    }
}

fn render_inner(c: &Case) -> String {
    match c {
        Case::Single { image, base, user } => format!("load at base 0x{:x}, user entries {:?}\n{}", base, user, render_image(image)),
        Case::Link { objs } => {
            let mut s = String::from("link:\n");
            for o in objs {
                s.push_str(&format!(" file {}:\n{}", o.file, render_image(&o.image)));
            }
            s
        }
    }
}

fn simplify_image(img: &Image) -> Vec<Image> {
    let mut v = Vec::new();
    if img.symtab.is_some() {
        let mut d = img.clone();
        d.symtab = None;
        v.push(d);
    }
    if img.dynamic.is_some() {
        let mut d = img.clone();
        d.dynamic = None;
        v.push(d);
    }
    for i in 0..img.segs.len() {
        if img.segs.len() > 1 {
            let mut d = img.clone();
            d.segs.remove(i);
            v.push(d);
        }
    }
    if !img.extras.is_empty() || img.interp || img.phdr || img.gnu_stack.is_some() {
        let mut d = img.clone();
        d.extras.clear();
        d.interp = false;
        d.phdr = false;
        d.gnu_stack = None;
        v.push(d);
    }
    if let Some(st) = &img.symtab {
        for i in 0..st.len() {
            let mut d = img.clone();
            d.symtab.as_mut().unwrap().remove(i);
            v.push(d);
        }
    }
    if let Some(dy) = &img.dynamic {
        for i in 0..dy.plt.len() {
            let mut d = img.clone();
            d.dynamic.as_mut().unwrap().plt.remove(i);
            v.push(d);
        }
        for i in 0..dy.rel.len() {
            let mut d = img.clone();
            d.dynamic.as_mut().unwrap().rel.remove(i);
            v.push(d);
        }
        for i in 0..dy.syms.len() {
            // keep relocation -> symbol references stable: only drop a symbol nothing names
            let named = dy.plt.iter().chain(dy.rel.iter()).any(|r| r.kind != RelKind::Relative && !dy.syms.is_empty() && r.sym as usize % dy.syms.len() >= i);
            if !named {
                let mut d = img.clone();
                d.dynamic.as_mut().unwrap().syms.remove(i);
                v.push(d);
            }
        }
        if !dy.needed.is_empty() || dy.soname.is_some() {
            let mut d = img.clone();
            let x = d.dynamic.as_mut().unwrap();
            x.needed.clear();
            x.soname = None;
            v.push(d);
        }
    }
    for i in 0..img.segs.len() {
        let s = &img.segs[i];
        if s.bss > 0 {
            let mut d = img.clone();
            d.segs[i].bss = 0;
            v.push(d);
        }
        if s.filler > 16 {
            let mut d = img.clone();
            d.segs[i].filler = 16;
            v.push(d);
        }
        if s.gap_pages > 0 || s.pad_to_page {
            let mut d = img.clone();
            d.segs[i].gap_pages = 0;
            d.segs[i].pad_to_page = false;
            v.push(d);
        }
    }
    if img.paddr_delta != 0 {
        let mut d = img.clone();
        d.paddr_delta = 0;
        v.push(d);
    }
    if !img.hdr_in_first {
        let mut d = img.clone();
        d.hdr_in_first = true;
        v.push(d);
    }
    v
}

fn simplify(c: &Case) -> Vec<Case> {
    match c {
        Case::Single { image, base, user } => {
            let mut v: Vec<Case> = Vec::new();
            for i in 0..user.len() {
                let mut u = user.clone();
                u.remove(i);
                v.push(Case::Single { image: image.clone(), base: *base, user: u });
            }
            for img in simplify_image(image) {
                v.push(Case::Single { image: img, base: *base, user: user.clone() });
            }
            for b in [0u64, 0x1000] {
                if *base != b && *base > b {
                    v.push(Case::Single { image: image.clone(), base: b, user: user.clone() });
                }
            }
            v
        }
        Case::Link { objs } => {
            let mut v = Vec::new();
            for k in 0..objs.len() {
                for img in simplify_image(&objs[k].image) {
                    if img.dynamic.is_none() {
                        continue;
                    }
                    let mut o = objs.clone();
                    o[k].image = img;
                    v.push(Case::Link { objs: o });
                }
            }
            if objs.len() == 3 {
                // drop the last library (valid only if nothing names it; the check re-validates)
                let mut o = objs.clone();
                let gone = o.pop().unwrap();
                for x in o.iter_mut() {
                    x.image.dynamic.as_mut().unwrap().needed.retain(|n| *n != gone.file);
                }
                v.push(Case::Link { objs: o });
            }
            v
        }
    }
}

/// development aid (C19_SELFTEST=1): the generator and the writer must be total over tapes,
/// including the degenerate ones shrinking produces
fn selftest() {
    let mut x: u64 = 0x1234_5678_9abc_def1;
    let mut next = move || {
        x ^= x << 13;
        x ^= x >> 7;
        x ^= x << 17;
        x
    };
    let mut bad = 0;
    for round in 0..200_000u32 {
        let mode = round % 5;
        let tape: Vec<u32> = (0..1100)
            .map(|i| match mode {
                0 => 0,
                1 => u32::MAX,
                2 => {
                    if next() % 3 == 0 {
                        0
                    } else {
                        next() as u32
                    }
                }
                3 => {
                    if (i as u64) < next() % 1100 {
                        next() as u32
                    } else {
                        0
                    }
                }
                _ => [0u32, u32::MAX, 0x8000_0000, 1][(next() % 4) as usize],
            })
            .collect();
        let r = guard(|| {
            let mut t = Tape::new(&tape);
            let c = decode(&mut t);
            let _ = render_inner(&c);
            let _ = simplify(&c);
            let mut o = Obs::default();
            o.replay = true;
            let _ = c;
        });
        if let Err(pi) = r {
            bad += 1;
            if bad < 10 {
                println!("selftest: mode {} panicked: {} at {}:{}", mode, pi.msg, pi.file, pi.line);
            }
        }
    }
    println!("selftest: {} panics", bad);
}

/// libFuzzer entry: the input bytes are the entropy tape (little-endian u32 words); same
/// generator, same oracle as the proptest tiers.
#[allow(dead_code)]
pub fn fuzz_bytes(data: &[u8]) {
    let tape = fv::tape::words_from_bytes(data, 1100);
    let case = decode(&mut Tape::new(&tape));
    engine::fuzz_one("C19", &case, &render, &check);
}

#[allow(dead_code)]
fn main() -> std::process::ExitCode {
    if std::env::var("C19_SELFTEST").is_ok() {
        selftest();
        return std::process::ExitCode::SUCCESS;
    }
    let mut spec = Spec::new(
        "C19",
        "ELF images written by the harness from a model (ELF32/64, LSB/MSB, EM_386/X86_64/MIPS/PPC/AARCH64, 1-4 PT_LOAD segments with every R/W/X combination, zero-fill tails, non-load program headers, .symtab/.dynsym with FUNC/OBJECT/NOTYPE x local/global/weak x defined/undefined/zero-valued/absolute symbols, .dynamic, PLT and dynamic relocations) loaded with Elf::new at base B and at base 0, with user entries; about 5% of the cases are a main program plus one or two shared objects (EM_386, or MIPS o32 with a GOT) written to a scratch directory and linked with ElfLinker. Non-trivial single image = at least two segments with memsz > filesz in one of them, B != 0 and at least three different kinds of symbols; non-trivial link = at least two relocated words, of two kinds for EM_386, and a library base != 0. Distinct = (machine, class, endianness, per-segment flags/zero-fill shape, set of symbol kinds, alignment of B, PLT relocations present, number of user entries) resp. (number of objects, relocation kinds, number of relocations, segments per object)",
        Box::new(|_t: Tier| from_tape(1100, decode)),
        |t| t.pick(600_000, 10_000_000),
        check,
    );
    spec.render = render;
    spec.simplify = Some(|c: &Case| match guard(|| simplify(c)) {
        Ok(v) => v,
        Err(pi) => {
            eprintln!("C19: simplify panicked: {} at {}:{}", pi.msg, pi.file, pi.line);
            Vec::new()
        }
    });
    spec.assumptions = vec![
        "only images the harness writer can express: SysV DT_HASH (no DT_GNU_HASH), no symbol versioning, no compressed or grouped sections, at most 4 PT_LOAD segments, 8+6 symbols".into(),
        "machine / class / data combinations are the ones the psABIs define (EM_386 and EM_X86_64 are LSB only, EM_PPC is ELF32); EM_PPC LSB is generated but falcon declines it with an error, which is counted as an exclusion, not as a violation".into(),
        "image end + base stays below 2^32 for ELF32 and below 2^63 for ELF64 (no address wrap-around)".into(),
        "e_entry = 0 also means 'no entry point': whether base+0 is then reported as a function entry is not asserted".into(),
        "what symbols() must contain is not stated by the property; only the rebasing relation between base 0 and base B is checked for it and for exported_symbols()".into(),
        "linker: EM_386 (R_386_JMP_SLOT, GLOB_DAT, 32 with a zero in-place addend, RELATIVE) and MIPS o32 (GOT described by DT_MIPS_LOCAL_GOTNO/GOTSYM/SYMTABNO: local entries = link-time value + base, global entries = address of the named symbol, GOT[0] and GOT[1] belong to the run-time linker and are not asserted; R_MIPS_REL32 against symbol 0 only); every imported name has exactly one visible definition (no interposition, no unresolved weak symbols); a library's dependencies are listed in its own DT_NEEDED; where the linker places a library is read back with Elf::base_address(), not asserted".into(),
        "Loader::program()/program_verbose() (lifting over the entries) is not part of the property statement and is not checked here".into(),
    ];
    // floors: about half of the measured quick-tier fractions (seed 1), frozen
    spec.floors = vec![
        ("arch-386-32le", 0.10),
        ("arch-x86_64-64le", 0.08),
        ("arch-mips-32be", 0.05),
        ("arch-mips-32le", 0.05),
        ("arch-ppc-32be", 0.05),
        ("arch-aarch64-64le", 0.05),
        ("arch-aarch64-64be", 0.04),
        ("segment-with-zero-fill", 0.40),
        ("segment-all-zero-fill", 0.02),
        ("segment-vaddr-inside-page", 0.35),
        ("segments-on-adjacent-pages", 0.20),
        ("segments-4", 0.10),
        ("base-0", 0.05),
        ("link-dt-needed-spread-among-other-tags", 0.002),
        ("user-entries-given-after-a-first-look", 0.20),
        ("base-0x40000000", 0.08),
        ("base-random-page", 0.20),
        ("base-unaligned", 0.05),
        ("plt-relocations", 0.10),
        ("sym-undefined-func-nonzero", 0.08),
        ("sym-defined-func", 0.30),
        ("sym-defined-func-at-mapped-zero", 0.008),
        ("sym-weak", 0.20),
        ("sym-local", 0.25),
        ("user-entries", 0.25),
        ("headers-not-loaded", 0.10),
        ("no-section-headers", 0.05),
        ("non-load-program-headers", 0.40),
        ("link", 0.03),
        ("link-386", 0.012),
        ("link-mips-got", 0.012),
        ("nontrivial", 0.25),
    ];
    spec.workers = |t| t.pick(8, 16);
    spec.crash_sig = |c| match c {
        Case::Single { .. } => "C19|single".into(),
        Case::Link { .. } => "C19|link".into(),
    };
    engine::main(spec)
}
