//! C18 — program locations navigate and round-trip consistently.
//!
//! Domain: programs of 1-4 generated IL functions (`gen_il::gen_fn`: empty blocks, self-loops,
//! several in/out edges, unreachable blocks), whose instruction addresses are then rewritten to
//! contain duplicates within / between functions, missing addresses, functions sharing one function
//! address, addresses below / above every function address; a random entry block; and a short
//! history of `Block::remove_instruction` / `Block::nop` edits (through `Function::block_mut`)
//! that leaves non-contiguous instruction indices and freshly emptied blocks.  Inside each program
//! the check is exhaustive: ALL locations and ALL addresses in use (and their neighbours).
//!
//! Oracle: the generator's own inventory (`Inv`, computed from the `FnSpec` and the edit list by
//! a tiny model of the block instruction counter — never read back from falcon):
//!   * forward / backward are converse relations (metamorphic, as the property states it);
//!   * `Function::locations()` == inventory as a multiset (each location exactly once);
//!   * closure of `forward` from `RefProgramLocation::from_function` == own reachability;
//!   * `ProgramLocation::from(r).apply(&p) == r`, same on `p.clone()`, `migrate` agrees;
//!   * `from_address(p, a)` is an instruction with address `a` iff the inventory has one;
//!   * after `ControlFlowGraph::merge()` folded blocks of a function: the same enumeration /
//!     converse / closure laws and `every stored edge joins two blocks`, `the entry is a block`,
//!     judged against the function's storage read back through `blocks()` and `edges()`.

use falcon::il;
use falcon::il::{ProgramLocation, RefFunctionLocation, RefProgramLocation};
use fv::engine::{self, guard, Failure, Obs, Spec, Tier};
use fv::gen_il::{gen_fn, FnSpec, IlParams};
use fv::refil::{FnView, Loc};
use fv::tape::{from_tape, Tape};
use serde::{Deserialize, Serialize};
use std::collections::{BTreeMap, BTreeSet};

// ------------------------------------------------------------------------------------------
// case
// ------------------------------------------------------------------------------------------

#[derive(Clone, Debug, Serialize, Deserialize, PartialEq, Eq)]
enum Edit {
    /// `function.block_mut(block)?.remove_instruction(index)`
    Remove { block: usize, index: usize },
    /// `function.block_mut(block)?.nop()` followed by `set_address(address)` on the new instruction
    Append { block: usize, address: Option<u64> },
    /// `instructions_mut()`: the last instruction of the block is moved to the front (what an
    /// instrumentation pass does when it inserts a freshly numbered instruction at the top); the
    /// block's instructions are then no longer stored in ascending index order
    Rotate { block: usize },
}

#[derive(Clone, Debug, Serialize, Deserialize)]
struct FnCase {
    spec: FnSpec,
    edits: Vec<Edit>,
}

#[derive(Clone, Debug, Serialize, Deserialize)]
struct Case {
    fns: Vec<FnCase>,
    /// tape entries consumed by the decoder (generator health only; 0 in hand-written cases)
    #[serde(default)]
    tape_used: usize,
    /// the functions reach the program second-hand: they were first added to another program in
    /// reverse order (so each already carries an index, a different one) and are cloned out of it
    #[serde(default)]
    recycled: bool,
}

// ------------------------------------------------------------------------------------------
// the inventory: what the generator knows it built (independent of falcon)
// ------------------------------------------------------------------------------------------

#[derive(Clone, Debug)]
struct Inv {
    address: u64,
    /// block i has index i; each instruction is (instruction index, address)
    blocks: Vec<Vec<(usize, Option<u64>)>>,
    edges: BTreeSet<(usize, usize)>,
    entry: Option<usize>,
    /// the edits that applied (an edit naming an instruction that no longer exists is dropped,
    /// both here and when driving falcon; only shrinking produces such edits)
    applied: Vec<Edit>,
}

/// Model of the documented block behaviour: every instruction appended to a block gets the
/// block's next counter value ("block-unique" index); removal does not renumber.
fn inventory(fc: &FnCase) -> Inv {
    let mut blocks: Vec<Vec<(usize, Option<u64>)>> = fc
        .spec
        .blocks
        .iter()
        .map(|ops| ops.iter().enumerate().map(|(k, o)| (k, o.address)).collect())
        .collect();
    let mut next: Vec<usize> = fc.spec.blocks.iter().map(|b| b.len()).collect();
    let mut applied = Vec::new();
    for e in &fc.edits {
        match e {
            Edit::Remove { block, index } => {
                if *block >= blocks.len() {
                    continue;
                }
                if let Some(pos) = blocks[*block].iter().position(|x| x.0 == *index) {
                    blocks[*block].remove(pos);
                    applied.push(e.clone());
                }
            }
            Edit::Append { block, address } => {
                if *block >= blocks.len() {
                    continue;
                }
                blocks[*block].push((next[*block], *address));
                next[*block] += 1;
                applied.push(e.clone());
            }
            Edit::Rotate { block } => {
                if *block >= blocks.len() || blocks[*block].len() < 2 {
                    continue;
                }
                let last = blocks[*block].pop().unwrap();
                blocks[*block].insert(0, last);
                applied.push(e.clone());
            }
        }
    }
    Inv {
        address: fc.spec.address,
        blocks,
        edges: fc.spec.edges.iter().map(|e| (e.0, e.1)).collect(),
        entry: fc.spec.entry,
        applied,
    }
}

impl Inv {
    fn all_locs(&self) -> Vec<Loc> {
        let mut v = Vec::new();
        for (b, is) in self.blocks.iter().enumerate() {
            if is.is_empty() {
                v.push(Loc::Empty(b));
            }
            for i in is {
                v.push(Loc::Instr(b, i.0));
            }
        }
        for (h, t) in &self.edges {
            v.push(Loc::Edge(*h, *t));
        }
        v.sort();
        v
    }
    fn reachable_blocks(&self) -> BTreeSet<usize> {
        let mut seen = BTreeSet::new();
        let mut stack: Vec<usize> = self.entry.into_iter().collect();
        while let Some(b) = stack.pop() {
            if seen.insert(b) {
                for (h, t) in &self.edges {
                    if *h == b {
                        stack.push(*t);
                    }
                }
            }
        }
        seen
    }
    /// instructions, empty blocks and edges on paths from the entry block
    fn reachable_locs(&self) -> BTreeSet<Loc> {
        let rb = self.reachable_blocks();
        let mut s = BTreeSet::new();
        for b in &rb {
            if self.blocks[*b].is_empty() {
                s.insert(Loc::Empty(*b));
            }
            for i in &self.blocks[*b] {
                s.insert(Loc::Instr(*b, i.0));
            }
        }
        for (h, t) in &self.edges {
            if rb.contains(h) {
                s.insert(Loc::Edge(*h, *t));
            }
        }
        s
    }
    fn address_of(&self, b: usize, idx: usize) -> Option<Option<u64>> {
        self.blocks.get(b)?.iter().find(|x| x.0 == idx).map(|x| x.1)
    }
}

fn kind(l: &Loc) -> &'static str {
    match l {
        Loc::Instr(..) => "instruction",
        Loc::Edge(..) => "edge",
        Loc::Empty(..) => "empty-block",
    }
}

// ------------------------------------------------------------------------------------------
// generator
// ------------------------------------------------------------------------------------------

const TAPE_LEN: usize = 1600;

fn params(tier: Tier) -> IlParams {
    IlParams {
        max_blocks: tier.pick(6, 9),
        max_ops: 3,
        widths: vec![1, 8, 32],
        max_scalars: 3,
        addr_bits: 32,
        mem: true,
        branch: true,
        intrinsic: true,
        unreachable: true,
        max_expr_depth: 1,
        ..IlParams::default()
    }
}

fn decode_with(t: &mut Tape, p: &IlParams) -> Case {
    let nf = 1 + t.weighted(&[20, 30, 30, 20]);
    let mut fns: Vec<FnCase> = Vec::new();
    // every instruction address handed out so far (all functions) and every function address
    let mut used_all: Vec<u64> = Vec::new();
    let mut fn_addrs: Vec<u64> = Vec::new();
    for k in 0..nf {
        let mut spec = gen_fn(t, p).spec;
        let n = spec.blocks.len();
        // --- function address
        let natural = 0x1000u64 * (k as u64 + 1);
        spec.address = match t.weighted(&[40, 15, 15, 8, 7, 15]) {
            0 => natural,
            1 => {
                if fn_addrs.is_empty() {
                    natural
                } else {
                    *t.pick(&fn_addrs) // same address as an earlier function
                }
            }
            2 => 0x1000u64 * (8 - k as u64), // descending order
            3 => 0,
            4 => u64::MAX,
            _ => 0x1000 + 4 * t.below(10) as u64, // inside function 0's natural range
        };
        fn_addrs.push(spec.address);
        // --- instruction addresses
        let mut used_here: Vec<u64> = Vec::new();
        let mut seq = spec.address;
        for b in 0..n {
            for o in spec.blocks[b].iter_mut() {
                let natural = seq;
                seq = seq.wrapping_add(4);
                let a = match t.weighted(&[46, 10, 10, 10, 6, 6, 6, 6]) {
                    0 => Some(natural),
                    1 => None,
                    2 => Some(if used_here.is_empty() { natural } else { *t.pick(&used_here) }),
                    3 => Some(if used_all.is_empty() { natural } else { *t.pick(&used_all) }),
                    4 => Some(t.below(12) as u64),            // below (almost) every function
                    5 => Some(u64::MAX - t.below(12) as u64), // above (almost) every function
                    6 => {
                        // next to an address in use
                        let pool: &Vec<u64> = if used_all.is_empty() { &used_here } else { &used_all };
                        if pool.is_empty() {
                            Some(natural.wrapping_add(1))
                        } else {
                            let x = *t.pick(pool);
                            Some(if t.chance(1, 2) { x.wrapping_add(1) } else { x.wrapping_sub(1) })
                        }
                    }
                    _ => Some(0x1000 * (1 + t.below(9) as u64) + 4 * t.below(10) as u64), // some function's range
                };
                o.address = a;
                if let Some(a) = a {
                    used_here.push(a);
                }
            }
        }
        used_all.extend(used_here.iter().copied());
        // --- entry block: mostly block 0, sometimes any block (entry inside a loop / with
        //     predecessors / a chunk of the function laid out before its entry)
        if t.chance(1, 4) {
            spec.entry = Some(t.below(n));
        }
        // --- edit history
        let ne = [0usize, 1, 2, 4][t.weighted(&[45, 25, 18, 12])];
        let mut fc = FnCase { spec, edits: Vec::new() };
        for _ in 0..ne {
            let inv = inventory(&fc);
            let b = t.below(n);
            let live = &inv.blocks[b];
            if live.len() >= 2 && t.chance(1, 5) {
                fc.edits.push(Edit::Rotate { block: b });
            } else if !live.is_empty() && !t.chance(1, 4) {
                let index = live[t.below(live.len())].0;
                fc.edits.push(Edit::Remove { block: b, index });
            } else {
                let address = match t.below(3) {
                    0 => None,
                    1 => Some(seq),
                    _ => Some(if used_all.is_empty() { seq } else { *t.pick(&used_all) }),
                };
                fc.edits.push(Edit::Append { block: b, address });
            }
        }
        fns.push(fc);
    }
    let recycled = t.chance(1, 4);
    Case { fns, tape_used: t.used(), recycled }
}

// ------------------------------------------------------------------------------------------
// driving falcon
// ------------------------------------------------------------------------------------------

fn build_function(fc: &FnCase, inv: &Inv) -> Result<il::Function, Failure> {
    let mut f = match guard(|| fc.spec.build()) {
        Ok(Ok(f)) => f,
        Ok(Err(e)) => fv::fail!("C18|build|error", "building the function failed: {}", e),
        Err(pi) => fv::fail!(format!("C18|build|{}", pi.sig()), "building the function panicked: {}", pi.msg),
    };
    for e in &inv.applied {
        let r: Result<Result<(), String>, _> = guard(|| match e {
            Edit::Remove { block, index } => f
                .block_mut(*block)
                .map_err(|e| e.to_string())?
                .remove_instruction(*index)
                .map_err(|e| e.to_string()),
            Edit::Append { block, address } => {
                let blk = f.block_mut(*block).map_err(|e| e.to_string())?;
                blk.nop();
                match blk.instructions_mut().last_mut() {
                    Some(i) => {
                        i.set_address(*address);
                        Ok(())
                    }
                    None => Err("nop() appended nothing".to_string()),
                }
            }
            Edit::Rotate { block } => {
                let blk = f.block_mut(*block).map_err(|e| e.to_string())?;
                let v = blk.instructions_mut();
                match v.pop() {
                    Some(last) => {
                        v.insert(0, last);
                        Ok(())
                    }
                    None => Err("nothing to rotate".to_string()),
                }
            }
        });
        match r {
            Ok(Ok(())) => {}
            Ok(Err(m)) => fv::fail!("C18|build|edit-error", "edit {:?} failed: {}", e, m),
            Err(pi) => fv::fail!(format!("C18|build|edit|{}", pi.sig()), "edit {:?} panicked: {}", e, pi.msg),
        }
    }
    Ok(f)
}

fn key_of(l: &RefFunctionLocation) -> Loc {
    match l {
        RefFunctionLocation::Instruction(b, i) => Loc::Instr(b.index(), i.index()),
        RefFunctionLocation::Edge(e) => Loc::Edge(e.head(), e.tail()),
        RefFunctionLocation::EmptyBlock(b) => Loc::Empty(b.index()),
    }
}

/// Construct the location `l` of `f` through the plain accessors (`block`, `instructions`, `edge`).
fn mk<'p>(f: &'p il::Function, fi: usize, l: Loc) -> Result<RefProgramLocation<'p>, Failure> {
    let bad = |what: String| Failure::new("C18|build|inventory-mismatch", format!("function {}: {}", fi, what));
    let fl = match l {
        Loc::Instr(b, idx) => {
            let block = f.block(b).map_err(|e| bad(format!("block {}: {}", b, e)))?;
            let hits: Vec<&il::Instruction> = block.instructions().iter().filter(|i| i.index() == idx).collect();
            if hits.len() != 1 {
                return Err(bad(format!("block {} has {} instructions with index {}", b, hits.len(), idx)));
            }
            RefFunctionLocation::Instruction(block, hits[0])
        }
        Loc::Edge(h, t) => RefFunctionLocation::Edge(f.edge(h, t).map_err(|e| bad(format!("edge {}->{}: {}", h, t, e)))?),
        Loc::Empty(b) => {
            let block = f.block(b).map_err(|e| bad(format!("block {}: {}", b, e)))?;
            if !block.instructions().is_empty() {
                return Err(bad(format!("block {} should be empty", b)));
            }
            RefFunctionLocation::EmptyBlock(block)
        }
    };
    Ok(RefProgramLocation::new(f, fl))
}

fn pkey(r: &RefProgramLocation) -> (Option<usize>, Loc) {
    (r.function().index(), key_of(r.function_location()))
}

fn show(l: &Loc) -> String {
    match l {
        Loc::Instr(b, i) => format!("instruction {}:{}", b, i),
        Loc::Edge(h, t) => format!("edge {}->{}", h, t),
        Loc::Empty(b) => format!("empty block {}", b),
    }
}

/// forward or backward of `a`, as keys; every result must be a location of the same function.
fn step(a: &RefProgramLocation, al: &Loc, fi: usize, all: &BTreeSet<Loc>, fwd: bool) -> Result<BTreeSet<Loc>, Failure> {
    let dir = if fwd { "forward" } else { "backward" };
    let r = guard(|| if fwd { a.forward() } else { a.backward() });
    let v = match r {
        Ok(Ok(v)) => v,
        Ok(Err(e)) => fv::fail!(format!("C18|{}|err|{}", dir, kind(al)), "function {}: {}({}) returned Err: {}", fi, dir, show(al), e),
        Err(pi) => fv::fail!(format!("C18|{}|panic|{}", dir, kind(al)), "function {}: {}({}) panicked: {} ({}:{})", fi, dir, show(al), pi.msg, pi.file, pi.line),
    };
    let mut out = BTreeSet::new();
    for b in &v {
        let (bf, bl) = pkey(b);
        if bf != Some(fi) || !all.contains(&bl) {
            fv::fail!(
                format!("C18|{}|not-a-location|{}", dir, kind(al)),
                "function {}: {}({}) contains {} of function {:?}, which is not a location of the function",
                fi, dir, show(al), show(&bl), bf
            );
        }
        out.insert(bl);
    }
    Ok(out)
}

/// Navigation laws on a function whose content is read back from its own storage (used after
/// `merge()`): every edge joins two blocks, the entry is a block, `locations()` lists the content
/// once each, forward / backward are converse, and the closure of forward from `from_function` is
/// what the edges reach from the entry block.
fn navigate_read_back(f: &il::Function, fi: usize, entry_before: Option<usize>, obs: &mut Obs) -> Result<(), Failure> {
    let blocks: BTreeMap<usize, Vec<usize>> = f.blocks().iter().map(|b| (b.index(), b.instructions().iter().map(|i| i.index()).collect())).collect();
    let edges: BTreeSet<(usize, usize)> = f.edges().iter().map(|e| (e.head(), e.tail())).collect();
    for (h, t) in &edges {
        if !blocks.contains_key(h) || !blocks.contains_key(t) {
            fv::fail!("C18|merged|edge-with-missing-end", "function {} after merge(): edge {}->{} is stored but the blocks are {:?}", fi, h, t, blocks.keys().collect::<Vec<_>>());
        }
    }
    let entry = f.control_flow_graph().entry();
    if entry_before.is_some() && !entry.map(|e| blocks.contains_key(&e)).unwrap_or(false) {
        fv::fail!("C18|merged|entry-not-a-block", "function {} after merge(): the entry is {:?}, the blocks are {:?}", fi, entry, blocks.keys().collect::<Vec<_>>());
    }
    let mut want: Vec<Loc> = Vec::new();
    for (b, is) in &blocks {
        if is.is_empty() {
            want.push(Loc::Empty(*b));
        }
        for i in is {
            want.push(Loc::Instr(*b, *i));
        }
    }
    for (h, t) in &edges {
        want.push(Loc::Edge(*h, *t));
    }
    want.sort();
    let want_set: BTreeSet<Loc> = want.iter().copied().collect();
    let listed = match guard(|| f.locations()) {
        Ok(v) => v,
        Err(pi) => fv::fail!(format!("C18|merged|locations|{}", pi.sig()), "function {} after merge(): locations() panicked: {}", fi, pi.msg),
    };
    let mut got: Vec<Loc> = listed.iter().map(key_of).collect();
    got.sort();
    obs.count("locations-after-merge", want.len() as u64);
    if got != want {
        fv::fail!("C18|merged|locations|differs", "function {} after merge(): locations() = {:?}, the function holds {:?}", fi, got, want);
    }
    let mut refs: BTreeMap<Loc, RefProgramLocation> = BTreeMap::new();
    for l in &want {
        refs.insert(*l, mk(f, fi, *l)?);
    }
    let mut fwd: BTreeMap<Loc, BTreeSet<Loc>> = BTreeMap::new();
    let mut bwd: BTreeMap<Loc, BTreeSet<Loc>> = BTreeMap::new();
    for (l, r) in &refs {
        fwd.insert(*l, step(r, l, fi, &want_set, true)?);
        bwd.insert(*l, step(r, l, fi, &want_set, false)?);
    }
    for (a, succs) in &fwd {
        for b in succs {
            if !bwd[b].contains(a) {
                fv::fail!(format!("C18|merged|converse|successor-lacks-predecessor|{}->{}", kind(a), kind(b)), "function {} after merge(): {} is in forward({}) but {} is not in backward({}) = {:?}", fi, show(b), show(a), show(a), show(b), bwd[b]);
            }
        }
    }
    for (b, preds) in &bwd {
        for a in preds {
            if !fwd[a].contains(b) {
                fv::fail!(format!("C18|merged|converse|predecessor-lacks-successor|{}->{}", kind(a), kind(b)), "function {} after merge(): {} is in backward({}) but {} is not in forward({}) = {:?}", fi, show(a), show(b), show(b), show(a), fwd[a]);
            }
        }
    }
    if let Some(entry) = entry {
        let start = match guard(|| RefProgramLocation::from_function(f)) {
            Ok(Some(Ok(s))) => s,
            Ok(Some(Err(e))) => fv::fail!("C18|merged|from_function|err", "function {} after merge(): from_function returned Err: {}", fi, e),
            Ok(None) => fv::fail!("C18|merged|from_function|none", "function {} after merge(): from_function returned None although the entry is block {}", fi, entry),
            Err(pi) => fv::fail!(format!("C18|merged|from_function|{}", pi.sig()), "function {} after merge(): from_function panicked: {}", fi, pi.msg),
        };
        let (_, sl) = pkey(&start);
        if !want_set.contains(&sl) {
            fv::fail!("C18|merged|from_function|not-a-location", "function {} after merge(): from_function returned {}", fi, show(&sl));
        }
        let mut seen: BTreeSet<Loc> = BTreeSet::new();
        let mut stack = vec![sl];
        while let Some(l) = stack.pop() {
            if seen.insert(l) {
                stack.extend(fwd[&l].iter().copied());
            }
        }
        let mut rb: BTreeSet<usize> = BTreeSet::new();
        let mut todo = vec![entry];
        while let Some(b) = todo.pop() {
            if rb.insert(b) {
                todo.extend(edges.iter().filter(|e| e.0 == b).map(|e| e.1));
            }
        }
        let model: BTreeSet<Loc> = want
            .iter()
            .copied()
            .filter(|l| match l {
                Loc::Instr(b, _) | Loc::Empty(b) => rb.contains(b),
                Loc::Edge(h, _) => rb.contains(h),
            })
            .collect();
        if seen != model {
            fv::fail!("C18|merged|closure|differs", "function {} after merge(): repeated forward() from {} reaches {:?}; on paths from the entry block {} are {:?}", fi, show(&sl), seen, entry, model);
        }
    }
    Ok(())
}

fn check(case: &Case, obs: &mut Obs) -> Result<(), Failure> {
    let invs: Vec<Inv> = case.fns.iter().map(inventory).collect();

    // ---- build the program through the public API
    let mut program = il::Program::new();
    let mut built = Vec::new();
    for (fc, inv) in case.fns.iter().zip(&invs) {
        built.push(build_function(fc, inv)?);
    }
    if case.recycled {
        // functions that already belong to another program, under other indices
        obs.class("functions-recycled-from-another-program");
        let mut other = il::Program::new();
        for f in built.iter().rev() {
            other.add_function(f.clone());
        }
        let n = built.len();
        built = (0..n).map(|k| other.function(n - 1 - k).expect("function just added").clone()).collect();
    }
    for f in built {
        program.add_function(f);
    }
    let clone = program.clone();
    for (fi, inv) in invs.iter().enumerate() {
        let f = match program.function(fi) {
            Some(f) if f.index() == Some(fi) => f,
            _ => fv::fail!("C18|program|function-index", "the {}-th function added is not function({}) with index Some({})", fi, fi, fi),
        };
        // the built function must be what the inventory says (checks the model of the block
        // counter, not the property; a mismatch is reported under its own signature)
        let view = FnView::of(f);
        let got: Vec<Vec<(usize, Option<u64>)>> = view.blocks.values().map(|is| is.iter().map(|i| (i.index, i.address)).collect()).collect();
        let got_edges: BTreeSet<(usize, usize)> = view.edges.iter().map(|e| (e.head, e.tail)).collect();
        if view.blocks.keys().copied().collect::<Vec<_>>() != (0..inv.blocks.len()).collect::<Vec<_>>() || got != inv.blocks || got_edges != inv.edges || view.entry != inv.entry || f.address() != inv.address {
            fv::fail!("C18|build|inventory-mismatch", "function {}: built blocks {:?} edges {:?} entry {:?}; inventory blocks {:?} edges {:?} entry {:?}", fi, got, got_edges, view.entry, inv.blocks, inv.edges, inv.entry);
        }
    }

    // ---- classes (measured on the inventory)
    let mut fp_fns = Vec::new();
    let mut nontrivial = false;
    let mut n_locations = 0u64;
    for (fc, inv) in case.fns.iter().zip(&invs) {
        let n = inv.blocks.len();
        let empties = inv.blocks.iter().filter(|b| b.is_empty()).count();
        let preds = |b: usize| inv.edges.iter().filter(|e| e.1 == b).count();
        let succs = |b: usize| inv.edges.iter().filter(|e| e.0 == b).count();
        let multi_pred = (0..n).filter(|b| preds(*b) >= 2).count();
        let multi_succ = (0..n).filter(|b| succs(*b) >= 2).count();
        let self_loops = inv.edges.iter().filter(|e| e.0 == e.1).count();
        let unreach = n - inv.reachable_blocks().len();
        let gaps = inv.blocks.iter().filter(|b| b.iter().enumerate().any(|(pos, i)| i.0 != pos)).count();
        let emptied = (0..n).filter(|b| inv.blocks[*b].is_empty() && !fc.spec.blocks[*b].is_empty()).count();
        let empty_with_preds = (0..n).filter(|b| inv.blocks[*b].is_empty() && preds(*b) >= 1).count();
        let empty_with_succs = (0..n).filter(|b| inv.blocks[*b].is_empty() && succs(*b) >= 1).count();
        if empties > 0 {
            obs.class("fn-with-empty-block");
        }
        if empty_with_preds > 0 && empty_with_succs > 0 {
            obs.class("empty-block-with-in-and-out-edges");
        }
        if inv.entry.map(|e| inv.blocks[e].is_empty()).unwrap_or(false) {
            obs.class("entry-block-empty");
        }
        if inv.entry != Some(0) {
            obs.class("entry-not-block-0");
        }
        if inv.entry.map(|e| preds(e) >= 1).unwrap_or(false) {
            obs.class("entry-has-predecessors");
        }
        if multi_pred > 0 {
            obs.class("block-with-2+-predecessors");
        }
        if multi_succ > 0 {
            obs.class("block-with-2+-successors");
        }
        if self_loops > 0 {
            obs.class("self-loop");
        }
        if (0..n).any(|b| inv.edges.contains(&(b, b)) && inv.blocks[b].is_empty()) {
            obs.class("self-loop-on-empty-block");
        }
        if unreach > 0 {
            obs.class("unreachable-block");
        }
        if gaps > 0 {
            obs.class("non-contiguous-instruction-indices");
        }
        if emptied > 0 {
            obs.class("block-emptied-by-removal");
        }
        if inv.blocks.iter().any(|b| b.windows(2).any(|w| w[0].0 > w[1].0)) {
            obs.class("instructions-not-in-ascending-index-order");
        }
        if inv.applied.iter().any(|e| matches!(e, Edit::Append { .. })) && inv.applied.iter().any(|e| matches!(e, Edit::Remove { .. })) {
            obs.class("remove-then-append-history");
        }
        let addrs: Vec<u64> = inv.blocks.iter().flatten().filter_map(|i| i.1).collect();
        let distinct: BTreeSet<u64> = addrs.iter().copied().collect();
        if distinct.len() < addrs.len() {
            obs.class("duplicate-address-within-function");
        }
        if inv.blocks.iter().flatten().any(|i| i.1.is_none()) {
            obs.class("instruction-without-address");
        }
        if empties > 0 || multi_pred > 0 {
            nontrivial = true;
        }
        n_locations += inv.all_locs().len() as u64;
        fp_fns.push((n, inv.edges.len().min(9), empties.min(3), multi_pred.min(3), self_loops.min(2), unreach.min(2), gaps.min(2)));
    }
    obs.class(match case.fns.len() {
        1 => "1-function",
        2 => "2-functions",
        3 => "3-functions",
        _ => "4-functions",
    });
    {
        let fa: Vec<u64> = invs.iter().map(|i| i.address).collect();
        let d: BTreeSet<u64> = fa.iter().copied().collect();
        if d.len() < fa.len() {
            obs.class("functions-with-same-address");
        }
        let mut owners: BTreeMap<u64, BTreeSet<usize>> = BTreeMap::new();
        for (fi, inv) in invs.iter().enumerate() {
            for a in inv.blocks.iter().flatten().filter_map(|i| i.1) {
                owners.entry(a).or_default().insert(fi);
            }
        }
        if owners.values().any(|o| o.len() >= 2) {
            obs.class("duplicate-address-between-functions");
        }
    }
    obs.count("locations", n_locations);
    if case.tape_used > TAPE_LEN {
        obs.class("tape-exhausted");
    }

    // ---- per function: enumeration, converse, closure, round trip
    for (fi, inv) in invs.iter().enumerate() {
        let f = program.function(fi).unwrap();
        let want = inv.all_locs();
        let want_set: BTreeSet<Loc> = want.iter().copied().collect();

        // (1) enumeration: each instruction, empty block and edge exactly once
        let listed = match guard(|| f.locations()) {
            Ok(v) => v,
            Err(pi) => fv::fail!(format!("C18|locations|{}", pi.sig()), "function {}: locations() panicked: {}", fi, pi.msg),
        };
        let mut got: Vec<Loc> = listed.iter().map(key_of).collect();
        got.sort();
        if got != want {
            let mut counts: BTreeMap<Loc, usize> = BTreeMap::new();
            for g in &got {
                *counts.entry(*g).or_default() += 1;
            }
            for w in &want {
                if !counts.contains_key(w) {
                    fv::fail!(format!("C18|locations|missing|{}", kind(w)), "function {}: locations() does not list {}", fi, show(w));
                }
            }
            for (g, c) in &counts {
                if !want_set.contains(g) {
                    fv::fail!(format!("C18|locations|extra|{}", kind(g)), "function {}: locations() lists {}, which the function does not have", fi, show(g));
                }
                if *c > 1 {
                    fv::fail!(format!("C18|locations|duplicate|{}", kind(g)), "function {}: locations() lists {} {} times", fi, show(g), c);
                }
            }
            fv::fail!("C18|locations|differs", "function {}: locations() = {:?}, inventory {:?}", fi, got, want);
        }
        for l in &listed {
            if let RefFunctionLocation::Instruction(b, i) = l {
                if inv.address_of(b.index(), i.index()) != Some(i.address()) {
                    fv::fail!("C18|locations|wrong-referent", "function {}: locations() pairs block {} with instruction {} @{:x?}, inventory has address {:x?}", fi, b.index(), i.index(), i.address(), inv.address_of(b.index(), i.index()));
                }
            }
        }

        // (2) forward / backward of every location
        let mut refs: BTreeMap<Loc, RefProgramLocation> = BTreeMap::new();
        for l in &want {
            refs.insert(*l, mk(f, fi, *l)?);
        }
        let mut fwd: BTreeMap<Loc, BTreeSet<Loc>> = BTreeMap::new();
        let mut bwd: BTreeMap<Loc, BTreeSet<Loc>> = BTreeMap::new();
        for (l, r) in &refs {
            fwd.insert(*l, step(r, l, fi, &want_set, true)?);
            bwd.insert(*l, step(r, l, fi, &want_set, false)?);
        }
        let mut pairs = 0u64;
        for (a, succs) in &fwd {
            for b in succs {
                pairs += 1;
                if !bwd[b].contains(a) {
                    fv::fail!(
                        format!("C18|converse|successor-lacks-predecessor|{}->{}", kind(a), kind(b)),
                        "function {}: {} is in forward({}) but {} is not in backward({}) = {:?}", fi, show(b), show(a), show(a), show(b), bwd[b]
                    );
                }
            }
        }
        for (b, preds) in &bwd {
            for a in preds {
                if !fwd[a].contains(b) {
                    fv::fail!(
                        format!("C18|converse|predecessor-lacks-successor|{}->{}", kind(a), kind(b)),
                        "function {}: {} is in backward({}) but {} is not in forward({}) = {:?}", fi, show(a), show(b), show(b), show(a), fwd[a]
                    );
                }
            }
        }
        obs.count("successor-pairs", pairs);

        // (3) closure of forward from from_function == own reachability from the entry block
        if inv.entry.is_some() {
            let start = match guard(|| RefProgramLocation::from_function(f)) {
                Ok(Some(Ok(s))) => s,
                Ok(Some(Err(e))) => fv::fail!("C18|from_function|err", "function {}: from_function returned Err: {}", fi, e),
                Ok(None) => fv::fail!("C18|from_function|none", "function {}: from_function returned None although the entry is block {:?}", fi, inv.entry),
                Err(pi) => fv::fail!(format!("C18|from_function|{}", pi.sig()), "function {}: from_function panicked: {}", fi, pi.msg),
            };
            let (sf, sl) = pkey(&start);
            if sf != Some(fi) || !want_set.contains(&sl) {
                fv::fail!("C18|from_function|not-a-location", "function {}: from_function returned {} of function {:?}", fi, show(&sl), sf);
            }
            let mut seen: BTreeSet<Loc> = BTreeSet::new();
            let mut stack = vec![sl];
            while let Some(l) = stack.pop() {
                if seen.insert(l) {
                    stack.extend(fwd[&l].iter().copied());
                }
            }
            let model = inv.reachable_locs();
            if let Some(m) = model.iter().find(|l| !seen.contains(l)) {
                fv::fail!(
                    format!("C18|closure|unreached|{}", kind(m)),
                    "function {}: {} is on a path from the entry block {:?} but repeated forward() from from_function() = {} never reaches it (reached {:?})", fi, show(m), inv.entry, show(&sl), seen
                );
            }
            if let Some(x) = seen.iter().find(|l| !model.contains(l)) {
                fv::fail!(
                    format!("C18|closure|overreached|{}", kind(x)),
                    "function {}: repeated forward() from from_function() = {} reaches {}, which is not on any path from the entry block {:?}", fi, show(&sl), show(x), inv.entry
                );
            }
        }

        // (4) owned form: apply to the same and to a cloned program; migrate agrees
        for (l, r) in &refs {
            let owned: ProgramLocation = ProgramLocation::from(r.clone());
            for (which, prog) in [("same", &program), ("clone", &clone)] {
                let back = match guard(|| owned.apply(prog)) {
                    Ok(Ok(b)) => b,
                    Ok(Err(e)) => fv::fail!(format!("C18|apply|err|{}|{}", which, kind(l)), "function {}: ProgramLocation::from({}).apply({} program) returned Err: {}", fi, show(l), which, e),
                    Err(pi) => fv::fail!(format!("C18|apply|panic|{}|{}", which, kind(l)), "function {}: apply({}) on the {} program panicked: {}", fi, show(l), which, pi.msg),
                };
                if pkey(&back) != (Some(fi), *l) || back != *r {
                    let (bf, bl) = pkey(&back);
                    fv::fail!(
                        format!("C18|apply|different-location|{}|{}", which, kind(l)),
                        "function {}: ProgramLocation::from({}).apply({} program) = {} of function {:?} (address {:x?}, original address {:x?})", fi, show(l), which, show(&bl), bf, back.address(), r.address()
                    );
                }
                let mig = match guard(|| r.migrate(prog)) {
                    Ok(Ok(b)) => b,
                    Ok(Err(e)) => fv::fail!(format!("C18|migrate|err|{}|{}", which, kind(l)), "function {}: migrate({}) to the {} program returned Err: {}", fi, show(l), which, e),
                    Err(pi) => fv::fail!(format!("C18|migrate|panic|{}|{}", which, kind(l)), "function {}: migrate({}) to the {} program panicked: {}", fi, show(l), which, pi.msg),
                };
                if mig != back || pkey(&mig) != (Some(fi), *l) {
                    let (mf, ml) = pkey(&mig);
                    fv::fail!(
                        format!("C18|migrate|disagrees|{}|{}", which, kind(l)),
                        "function {}: migrate({}) to the {} program = {} of function {:?}, apply gave {}", fi, show(l), which, show(&ml), mf, show(l)
                    );
                }
            }
        }
    }

    // ---- (4b) the same laws on every function after `ControlFlowGraph::merge()` folded some of
    //      its blocks: judged against the function's own storage read back through `blocks()` /
    //      `edges()` (the folding itself is C15's subject; here only navigation over its result)
    for (fi, inv) in invs.iter().enumerate() {
        let mut merged = program.function(fi).unwrap().clone();
        match guard(|| merged.control_flow_graph_mut().merge()) {
            Ok(Ok(())) => {}
            Ok(Err(e)) => fv::fail!("C18|merged|merge-err", "function {}: merge() returned Err: {}", fi, e),
            Err(pi) => fv::fail!(format!("C18|merged|merge|{}", pi.sig()), "function {}: merge() panicked: {}", fi, pi.msg),
        }
        if merged.blocks().len() != inv.blocks.len() {
            obs.class("function-folded-by-merge");
            if inv.edges.iter().any(|(h, t)| h != t && inv.edges.contains(&(*t, *h))) {
                obs.class("folded-function-with-two-block-cycle");
            }
            navigate_read_back(&merged, fi, inv.entry, obs)?;
        }
    }

    // ---- (5) address lookup, every address in use and its neighbours
    let mut by_addr: BTreeMap<u64, BTreeSet<(usize, usize, usize)>> = BTreeMap::new();
    for (fi, inv) in invs.iter().enumerate() {
        for (b, is) in inv.blocks.iter().enumerate() {
            for (idx, a) in is {
                if let Some(a) = a {
                    by_addr.entry(*a).or_default().insert((fi, b, *idx));
                }
            }
        }
    }
    let mut queries: BTreeSet<u64> = BTreeSet::new();
    for a in by_addr.keys().copied().chain(invs.iter().map(|i| i.address)).chain([0u64, u64::MAX]) {
        queries.insert(a);
        queries.insert(a.wrapping_add(1));
        queries.insert(a.wrapping_sub(1));
    }
    obs.count("address-lookups", queries.len() as u64);
    for q in &queries {
        // where the inventory has the address, relative to the function addresses (classes only)
        let closest_addr: Option<u64> = invs.iter().map(|i| i.address).filter(|a| a <= q).max();
        let place = match (by_addr.get(q), closest_addr) {
            (None, _) => "absent",
            (Some(_), None) => "below-every-function",
            (Some(owners), Some(ca)) => {
                if owners.iter().any(|(fi, _, _)| invs[*fi].address == ca) {
                    "in-a-closest-function"
                } else {
                    "outside-the-closest-function"
                }
            }
        };
        match place {
            "absent" => obs.class("lookup-absent-address"),
            "below-every-function" => obs.class("lookup-address-below-every-function"),
            "in-a-closest-function" => obs.class("lookup-in-closest-function"),
            _ => obs.class("lookup-outside-closest-function"),
        }
        if by_addr.contains_key(q) && invs.iter().all(|i| i.address < *q) {
            obs.class("lookup-address-above-every-function");
        }
        let got = match guard(|| RefProgramLocation::from_address(&program, *q)) {
            Ok(g) => g,
            Err(pi) => fv::fail!(format!("C18|from_address|panic|{}", place), "from_address(0x{:x}) panicked: {} ({}:{})", q, pi.msg, pi.file, pi.line),
        };
        match (got, by_addr.get(q)) {
            (None, None) => {}
            (None, Some(owners)) => fv::fail!(
                format!("C18|from_address|not-found|{}", place),
                "from_address(0x{:x}) = None but (function, block, instruction) {:?} have that address (function addresses {:x?})", q, owners, invs.iter().map(|i| i.address).collect::<Vec<_>>()
            ),
            (Some(r), owners) => {
                let (rf, rl) = pkey(&r);
                let is_owner = match (rf, rl, owners) {
                    (Some(fi), Loc::Instr(b, i), Some(o)) => o.contains(&(fi, b, i)),
                    _ => false,
                };
                if r.address() != Some(*q) || (owners.is_some() && !is_owner) {
                    fv::fail!(
                        format!("C18|from_address|wrong-location|{}", place),
                        "from_address(0x{:x}) = {} of function {:?} whose address is {:x?}; inventory owners {:?}", q, show(&rl), rf, r.address(), owners
                    );
                }
                if owners.is_none() {
                    fv::fail!("C18|from_address|found-absent-address", "from_address(0x{:x}) = {} of function {:?} but no instruction has that address", q, show(&rl), rf);
                }
            }
        }
    }

    if nontrivial {
        let flags: Vec<bool> = vec![
            invs.iter().map(|i| i.address).collect::<BTreeSet<_>>().len() < invs.len(),
            invs.iter().any(|i| i.blocks.iter().flatten().any(|x| x.1.is_none())),
        ];
        obs.nontrivial(&(fp_fns, flags));
        obs.class("nontrivial");
    }
    if obs.want_sample() {
        obs.sample(render(case));
    }
    Ok(())
}

// ------------------------------------------------------------------------------------------
// rendering, shrinking
// ------------------------------------------------------------------------------------------

fn render(c: &Case) -> String {
    let mut s = format!("program of {} function(s)\n", c.fns.len());
    for (fi, fc) in c.fns.iter().enumerate() {
        s.push_str(&format!("function {}: {}", fi, fc.spec.render()));
        let inv = inventory(fc);
        for e in &inv.applied {
            match e {
                Edit::Remove { block, index } => s.push_str(&format!(" then block_mut({}).remove_instruction({})\n", block, index)),
                Edit::Append { block, address } => s.push_str(&format!(" then block_mut({}).nop() with address {:x?}\n", block, address)),
                Edit::Rotate { block } => s.push_str(&format!(" then block_mut({}).instructions_mut(): last instruction moved to the front\n", block)),
            }
        }
        if !inv.applied.is_empty() {
            for (b, is) in inv.blocks.iter().enumerate() {
                s.push_str(&format!(" => block {} (index@address): {}\n", b, is.iter().map(|(i, a)| format!("{}@{:x?}", i, a)).collect::<Vec<_>>().join(" ")));
            }
        }
    }
    s
}

fn simplify(c: &Case) -> Vec<Case> {
    let mut v = Vec::new();
    // drop a function
    if c.fns.len() > 1 {
        for k in 0..c.fns.len() {
            let mut d = c.clone();
            d.fns.remove(k);
            v.push(d);
        }
    }
    for k in 0..c.fns.len() {
        let fc = &c.fns[k];
        // drop an edit
        for j in 0..fc.edits.len() {
            let mut d = c.clone();
            d.fns[k].edits.remove(j);
            v.push(d);
        }
        // drop the last block
        let n = fc.spec.blocks.len();
        if n > 1 && fc.spec.entry != Some(n - 1) {
            let mut d = c.clone();
            let s = &mut d.fns[k].spec;
            s.blocks.pop();
            s.edges.retain(|e| e.0 != n - 1 && e.1 != n - 1);
            if s.exit == Some(n - 1) {
                s.exit = None;
            }
            d.fns[k].edits.retain(|e| match e {
                Edit::Remove { block, .. } | Edit::Append { block, .. } | Edit::Rotate { block } => *block != n - 1,
            });
            v.push(d);
        }
        // drop an edge
        for j in 0..fc.spec.edges.len() {
            let mut d = c.clone();
            d.fns[k].spec.edges.remove(j);
            v.push(d);
        }
        // drop the last operation of a block (edits that name it become inapplicable and are ignored)
        for b in 0..n {
            if !fc.spec.blocks[b].is_empty() {
                let mut d = c.clone();
                d.fns[k].spec.blocks[b].pop();
                v.push(d);
            }
        }
    }
    // plain operations and unguarded edges (irrelevant to locations; makes the replay readable)
    let plain = |d: &mut Case| {
        let mut changed = false;
        for fc in d.fns.iter_mut() {
            for o in fc.spec.blocks.iter_mut().flatten() {
                if !matches!(o.op, il::Operation::Nop { .. }) {
                    o.op = il::Operation::Nop { placeholder: None };
                    changed = true;
                }
            }
            for e in fc.spec.edges.iter_mut() {
                if e.2.is_some() {
                    e.2 = None;
                    changed = true;
                }
            }
        }
        changed
    };
    let mut d = c.clone();
    if plain(&mut d) {
        v.push(d);
    }
    // function addresses / instruction addresses to small distinct values where it still fails
    for k in 0..c.fns.len() {
        let natural = 0x1000u64 * (k as u64 + 1);
        if c.fns[k].spec.address != natural {
            let mut d = c.clone();
            d.fns[k].spec.address = natural;
            v.push(d);
        }
    }
    v
}

/// libFuzzer entry: the input bytes are the entropy tape (little-endian u32 words); same
/// generator, same oracle as the proptest tiers.
#[allow(dead_code)]
pub fn fuzz_bytes(data: &[u8]) {
    let tape = fv::tape::words_from_bytes(data, TAPE_LEN);
    let case = decode_with(&mut Tape::new(&tape), &params(Tier::Quick));
    engine::fuzz_one("C18", &case, &render, &check);
}

#[allow(dead_code)]
fn main() -> std::process::ExitCode {
    let mut spec = Spec::new(
        "C18",
        "programs of 1-4 gen_il functions (empty blocks, self-loops, several in/out edges, unreachable blocks, random entry block) with rewritten instruction addresses (duplicates within and between functions, None, functions sharing an address, addresses below/above every function) and a 0-4 step remove_instruction/nop history; per program ALL locations (enumeration, forward/backward converse, closure from from_function vs own reachability, owned round trip on the program and its clone, migrate) and ALL addresses in use and their +-1 neighbours (from_address) are checked against the generator's own inventory; non-trivial = some function has >= 1 empty block or >= 1 block with >= 2 predecessors; distinct = per-function (blocks, edges, empty blocks, multi-predecessor blocks, self-loops, unreachable blocks, blocks with index gaps; capped) plus same-function-address / missing-address flags",
        Box::new(|tier: Tier| {
            let p = params(tier);
            from_tape(TAPE_LEN, move |t| decode_with(t, &p))
        }),
        |t| t.pick(500_000, 12_000_000),
        check,
    );
    spec.render = render;
    spec.simplify = Some(simplify);
    spec.assumptions = vec![
        "functions are built through ControlFlowGraph::new_block / Block::{assign,store,load,branch,intrinsic,nop} / Block::remove_instruction, so instruction indices are unique inside a block (instructions_mut() is used only to set addresses, as translators do)".into(),
        "every function has an entry block and belongs to the program (has an index)".into(),
        "forward/backward results are compared as sets; a result that is not a location of the same function is a violation".into(),
    ];
    // measured at bring-up (quick, seed 1; see C18-REPORT.md), floors at roughly half the measured share
    spec.floors = vec![
        ("instructions-not-in-ascending-index-order", 0.05),
        ("functions-recycled-from-another-program", 0.15),
        ("nontrivial", 0.80),
        ("fn-with-empty-block", 0.50),
        ("empty-block-with-in-and-out-edges", 0.40),
        ("block-with-2+-predecessors", 0.50),
        ("block-with-2+-successors", 0.50),
        ("self-loop", 0.50),
        ("unreachable-block", 0.20),
        ("entry-not-block-0", 0.15),
        ("duplicate-address-within-function", 0.30),
        ("duplicate-address-between-functions", 0.25),
        ("instruction-without-address", 0.35),
        ("functions-with-same-address", 0.10),
        ("lookup-outside-closest-function", 0.25),
        ("lookup-address-below-every-function", 0.20),
        ("lookup-address-above-every-function", 0.35),
        ("non-contiguous-instruction-indices", 0.20),
        ("block-emptied-by-removal", 0.10),
        ("function-folded-by-merge", 0.30),
        ("folded-function-with-two-block-cycle", 0.10),
    ];
    spec.crash_sig = |c: &Case| format!("C18|crash|{}-functions", c.fns.len());
    engine::main(spec)
}
