//! Self-tests of the harness' own reference components.
fn main() {
    match fv::bv::self_test() {
        Ok(n) => println!("Bv self-test: {} comparisons ok", n),
        Err(e) => {
            println!("HARNESS-ERROR {}", e);
            std::process::exit(3);
        }
    }
}
