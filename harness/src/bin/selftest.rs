//! Self-tests of the harness' own reference components.
fn main() {
    use fv::engine::glob_match as g;
    let t = [
        (g("a|b", "a|b"), true),
        (g("a|b", "a|bc"), false),
        (g("C01|amd64|{*}|-|*|addr32", "C01|amd64|stosb|-|*|addr32"), true),
        (g("C01|amd64|{*}|-|*|addr32", "C01|x86|stosb|-|*|addr32"), false),
        (g("C01|{*}|movsd|{*}", "C01|x86|movsd|xmm,m/w128|reg:rsi|"), true),
        (g("C01|{*}|movsd|{*}", "C01|x86|movsq|-|*|addr32"), false),
        (g("x{*}yz", "xyz"), true),
        (g("x{*}yz", "xz"), false),
        (g("{*}", ""), true),
    ];
    if let Some(k) = t.iter().position(|(a, b)| a != b) {
        println!("HARNESS-ERROR glob_match self-test {}", k);
        std::process::exit(3);
    }
    println!("glob_match self-test: {} ok", t.len());
    match fv::bv::self_test() {
        Ok(n) => println!("Bv self-test: {} comparisons ok", n),
        Err(e) => {
            println!("HARNESS-ERROR {}", e);
            std::process::exit(3);
        }
    }
}
