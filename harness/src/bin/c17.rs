//! C17 — stack-pointer offsets hold on every execution, for every architecture.
//!
//! Domain (two halves, all seven architectures):
//!  (a) functions LIFTED from small machine-code programs that this file assembles itself from
//!      each ISA's stack idioms (tables in `idioms`), arranged as straight lines, balanced and
//!      unbalanced diamonds / triangles, loops and jump chains, including forms that load SP from
//!      memory, compute it from another register or set it to a constant;
//!  (b) synthetic IL functions from `gen_il::gen_fn` (entry_no_preds) whose address-width pool
//!      scalar is renamed to the architecture's SP and into which SP operations are injected
//!      (`sp = sp +- c`, `sp = other`, loads into sp, constants, non-offset expressions).
//!
//! Oracle: `stack_pointer_offsets(f, arch)` must be `Ok`; the function is executed with
//! `fv::refil::Machine` (independent of falcon's executor and of the analysis) from several
//! random states (SP typical / unaligned / near 0 / near 2^w, registers biased to 0 and small
//! values so both sides of branches and loop exits are taken; memory is a total pseudo-random
//! function of the address, materialised lazily).  An execution stops at the first `Branch` or
//! `Intrinsic`.  At every executed location with a reported `Value(off)`:
//! `SP_after == SP_entry + off (mod 2^width)`.  Which scalar is the stack pointer and how wide
//! it is comes from an ABI table in this file, not from `Architecture::stack_pointer()`.

use falcon::analysis::stack_pointer_offsets::{stack_pointer_offsets, StackPointerOffset};
use falcon::architecture::{self, Architecture, Endian};
use falcon::il;
use falcon::memory::backing::Memory;
use falcon::memory::MemoryPermissions;
use fv::bv::Bv;
use fv::engine::{self, guard, Failure, Obs, Spec, Tier};
use fv::gen_il::{gen_fn, FnSpec, IlParams, OpSpec};
use fv::refil::{Effect, Fault, FnView, Loc, Machine, RefMem, RefState};
use fv::tape::{from_tape, Tape};
use num_bigint::BigInt;
use serde::{Deserialize, Serialize};
use std::collections::{BTreeMap, BTreeSet};

// ------------------------------------------------------------------------------------------
// architectures (ABI facts written down here; not read from falcon)
// ------------------------------------------------------------------------------------------

const ARCHS: [&str; 7] = ["x86", "amd64", "mips", "mipsel", "ppc", "aarch64", "aarch64eb"];

struct Abi {
    sp: &'static str,
    bits: usize,
    /// data endianness
    big: bool,
    /// instruction words are stored big-endian
    insn_big: bool,
}

fn abi(arch: usize) -> Abi {
    match ARCHS[arch] {
        "x86" => Abi { sp: "esp", bits: 32, big: false, insn_big: false },
        "amd64" => Abi { sp: "rsp", bits: 64, big: false, insn_big: false },
        "mips" => Abi { sp: "$sp", bits: 32, big: true, insn_big: true },
        "mipsel" => Abi { sp: "$sp", bits: 32, big: false, insn_big: false },
        "ppc" => Abi { sp: "r1", bits: 32, big: true, insn_big: true },
        "aarch64" => Abi { sp: "sp", bits: 64, big: false, insn_big: false },
        // A64 instructions are little-endian also on a big-endian data configuration
        _ => Abi { sp: "sp", bits: 64, big: true, insn_big: false },
    }
}

fn arch_of(i: usize) -> Box<dyn Architecture> {
    match ARCHS[i] {
        "x86" => Box::new(architecture::X86::new()),
        "amd64" => Box::new(architecture::Amd64::new()),
        "mips" => Box::new(architecture::Mips::new()),
        "mipsel" => Box::new(architecture::Mipsel::new()),
        "ppc" => Box::new(architecture::Ppc::new()),
        "aarch64" => Box::new(architecture::AArch64::new()),
        _ => Box::new(architecture::AArch64Eb::new()),
    }
}

#[derive(Clone, Copy, PartialEq, Eq, Debug)]
enum Fam {
    X86,
    Mips,
    Ppc,
    A64,
}

fn fam(arch: usize) -> Fam {
    match ARCHS[arch] {
        "x86" | "amd64" => Fam::X86,
        "mips" | "mipsel" => Fam::Mips,
        "ppc" => Fam::Ppc,
        _ => Fam::A64,
    }
}

// ------------------------------------------------------------------------------------------
// case
// ------------------------------------------------------------------------------------------

#[derive(Clone, Debug, Serialize, Deserialize, PartialEq, Eq)]
enum Item {
    /// one position-independent instruction (MIPS: a jump together with its delay slot)
    I { text: String, bytes: Vec<u8> },
    Label(u8),
    /// conditional branch to a label; `cc` selects the condition form of the architecture;
    /// `slot` is the MIPS delay-slot instruction (None = nop; ignored elsewhere)
    Jcc { cc: u8, label: u8, slot: Option<(String, Vec<u8>)> },
    Jmp { label: u8, slot: Option<(String, Vec<u8>)> },
}

#[derive(Clone, Debug, Serialize, Deserialize)]
enum Body {
    Lifted { base: u64, items: Vec<Item> },
    Synth { spec: FnSpec },
}

#[derive(Clone, Debug, Serialize, Deserialize)]
struct Case {
    arch: usize,
    shape: String,
    body: Body,
    /// initial states are a fixed function of (seed, execution index, scalar name / address)
    seed: u64,
}

const N_EXEC: usize = 6;
const MAX_STEPS: usize = 400;

// ------------------------------------------------------------------------------------------
// instruction tables
// ------------------------------------------------------------------------------------------

#[derive(Clone, Copy, PartialEq, Eq, Debug)]
enum Class {
    /// sp = sp + delta
    Affine(i64),
    /// does not write sp
    Neutral,
    /// does not write sp, changes what the conditional branches look at
    CondChange,
    /// sp loaded from memory or computed from another register
    Unknown,
    /// sp set to a constant or to a non-offset function of itself
    Odd,
    /// call: execution stops here
    Stop,
    /// return / indirect jump
    Term,
}

#[derive(Clone, Debug)]
struct Ins {
    text: String,
    bytes: Vec<u8>,
    class: Class,
}

/// immediates of one draw
struct Imm {
    /// small positive multiple of 16 (fits every form: <= 0x70)
    s: i64,
    /// any small positive (1..=0x7f)
    odd: i64,
    /// larger positive multiple of 16 (0x100..=0x7f0)
    big: i64,
    /// stack slot offset (multiple of 8, < 0x40)
    off: i64,
    /// some constant
    k: u32,
}

impl Imm {
    fn draw(t: &mut Tape) -> Imm {
        Imm {
            s: 16 * t.range(1, 7) as i64,
            odd: t.range(1, 0x7f) as i64,
            big: 16 * t.range(0x10, 0x7f) as i64,
            off: 8 * t.below(8) as i64,
            k: match t.below(4) {
                0 => 0x1000,
                1 => 0,
                2 => 0x7fff_fff0,
                _ => t.raw(),
            },
        }
    }
    fn fixed() -> Imm {
        Imm { s: 32, odd: 5, big: 0x120, off: 8, k: 0x1000 }
    }
}

fn word(arch: usize, w: u32) -> Vec<u8> {
    if abi(arch).insn_big {
        w.to_be_bytes().to_vec()
    } else {
        w.to_le_bytes().to_vec()
    }
}

fn ins(text: impl Into<String>, bytes: Vec<u8>, class: Class) -> Ins {
    Ins { text: text.into(), bytes, class }
}

/// The instruction table of an architecture for one draw of immediates.
fn idioms(arch: usize, im: &Imm) -> Vec<Ins> {
    use Class::*;
    let mut v: Vec<Ins> = Vec::new();
    match fam(arch) {
        Fam::X86 => {
            let a64 = ARCHS[arch] == "amd64";
            let w: i64 = if a64 { 8 } else { 4 };
            let (sp, bp, ax) = if a64 { ("rsp", "rbp", "rax") } else { ("esp", "ebp", "eax") };
            // 64-bit operand size prefix for the forms that need it
            let rex = |mut b: Vec<u8>| -> Vec<u8> {
                if a64 {
                    b.insert(0, 0x48);
                }
                b
            };
            let i8b = |x: i64| (x as i8) as u8;
            let i32b = |x: i64| (x as i32).to_le_bytes().to_vec();
            let cat = |a: Vec<u8>, b: Vec<u8>| -> Vec<u8> { a.into_iter().chain(b).collect() };
            for (r, n) in [(0u8, "ax"), (1, "cx"), (2, "dx"), (3, "bx"), (5, "bp"), (6, "si"), (7, "di")] {
                v.push(ins(format!("push {}", n), vec![0x50 + r], Affine(-w)));
                v.push(ins(format!("pop {}", n), vec![0x58 + r], Affine(w)));
            }
            v.push(ins(format!("push {:#x}", im.odd), vec![0x6a, i8b(im.odd)], Affine(-w)));
            v.push(ins(format!("push {:#x}", im.k), cat(vec![0x68], im.k.to_le_bytes().to_vec()), Affine(-w)));
            v.push(ins(format!("sub {},{:#x}", sp, im.s), rex(vec![0x83, 0xec, i8b(im.s)]), Affine(-im.s)));
            v.push(ins(format!("add {},{:#x}", sp, im.s), rex(vec![0x83, 0xc4, i8b(im.s)]), Affine(im.s)));
            v.push(ins(format!("add {},-{:#x}", sp, im.s), rex(vec![0x83, 0xc4, i8b(-im.s)]), Affine(-im.s)));
            v.push(ins(format!("sub {},{:#x}", sp, im.big), rex(cat(vec![0x81, 0xec], i32b(im.big))), Affine(-im.big)));
            v.push(ins(format!("add {},{:#x}", sp, im.big), rex(cat(vec![0x81, 0xc4], i32b(im.big))), Affine(im.big)));
            v.push(ins(format!("lea {},[{}+{:#x}]", sp, sp, im.s), rex(vec![0x8d, 0x64, 0x24, i8b(im.s)]), Affine(im.s)));
            v.push(ins(format!("lea {},[{}-{:#x}]", sp, sp, im.odd), rex(vec![0x8d, 0x64, 0x24, i8b(-im.odd)]), Affine(-im.odd)));
            v.push(ins(format!("lea {},[{}-{:#x}]", sp, sp, im.big), rex(cat(vec![0x8d, 0xa4, 0x24], i32b(-im.big))), Affine(-im.big)));
            v.push(ins(format!("lea {},[{}+{:#x}]", sp, sp, im.big), rex(cat(vec![0x8d, 0xa4, 0x24], i32b(im.big))), Affine(im.big)));
            v.push(ins(format!("inc {}", sp), rex(vec![0xff, 0xc4]), Affine(1)));
            v.push(ins(format!("dec {}", sp), rex(vec![0xff, 0xcc]), Affine(-1)));
            v.push(ins(format!("lea {},[{}]", sp, sp), rex(vec![0x8d, 0x24, 0x24]), Affine(0)));
            // neutral
            v.push(ins("nop", vec![0x90], Neutral));
            v.push(ins("mov eax,ebx", vec![0x89, 0xd8], Neutral));
            v.push(ins(format!("mov [{}+4],eax", sp), vec![0x89, 0x44, 0x24, 0x04], Neutral));
            v.push(ins(format!("mov eax,[{}+{:#x}]", sp, im.off), vec![0x8b, 0x44, 0x24, i8b(im.off)], Neutral));
            v.push(ins(format!("mov {},{}", bp, sp), rex(vec![0x89, 0xe5]), Neutral));
            v.push(ins(format!("lea {},[{}+8]", ax, sp), rex(vec![0x8d, 0x44, 0x24, 0x08]), Neutral));
            v.push(ins("test eax,eax", vec![0x85, 0xc0], CondChange));
            v.push(ins("dec ecx", vec![0xff, 0xc9], CondChange));
            v.push(ins("cmp eax,0", vec![0x83, 0xf8, 0x00], CondChange));
            v.push(ins("xor eax,eax", vec![0x31, 0xc0], CondChange));
            // sp from another register / from memory
            v.push(ins(format!("mov {},{}", sp, bp), rex(vec![0x89, 0xec]), Unknown));
            v.push(ins(format!("lea {},[{}-{:#x}]", sp, bp, im.s), rex(vec![0x8d, 0x65, i8b(-im.s)]), Unknown));
            v.push(ins("leave", vec![0xc9], Unknown));
            v.push(ins(format!("xchg {},{}", sp, ax), rex(vec![0x94]), Unknown));
            v.push(ins(format!("add {},{}", sp, ax), rex(vec![0x01, 0xc4]), Unknown));
            v.push(ins(format!("pop {}", sp), vec![0x5c], Unknown));
            v.push(ins(format!("mov {},[{}-8]", sp, bp), rex(vec![0x8b, 0x65, 0xf8]), Unknown));
            v.push(ins(format!("mov {},[{}]", sp, sp), rex(vec![0x8b, 0x24, 0x24]), Unknown));
            v.push(ins(format!("and {},-16", sp), rex(vec![0x83, 0xe4, 0xf0]), Unknown));
            // constants / non-offset functions of sp
            if a64 {
                v.push(ins(format!("mov rsp,{:#x}", im.k & 0x7fff_ffff), cat(vec![0x48, 0xc7, 0xc4], (im.k & 0x7fff_ffff).to_le_bytes().to_vec()), Odd));
                v.push(ins("lea esp,[rsp+8]", vec![0x8d, 0x64, 0x24, 0x08], Odd));
                v.push(ins(format!("mov esp,{:#x}", im.k), cat(vec![0xbc], im.k.to_le_bytes().to_vec()), Odd));
            } else {
                v.push(ins(format!("mov esp,{:#x}", im.k), cat(vec![0xbc], im.k.to_le_bytes().to_vec()), Odd));
            }
            v.push(ins("call $+5", vec![0xe8, 0, 0, 0, 0], Stop));
            v.push(ins("ret", vec![0xc3], Term));
            v.push(ins(format!("ret {:#x}", im.s), vec![0xc2, im.s as u8, 0], Term));
            v.push(ins(format!("jmp {}", ax), vec![0xff, 0xe0], Term));
        }
        Fam::Mips => {
            let w = |x: u32| word(arch, x);
            let lo = |x: i64| (x as u32) & 0xffff;
            v.push(ins(format!("addiu $sp,$sp,-{:#x}", im.s), w(0x27bd_0000 | lo(-im.s)), Affine(-im.s)));
            v.push(ins(format!("addiu $sp,$sp,{:#x}", im.s), w(0x27bd_0000 | lo(im.s)), Affine(im.s)));
            v.push(ins(format!("addiu $sp,$sp,-{:#x}", im.big), w(0x27bd_0000 | lo(-im.big)), Affine(-im.big)));
            v.push(ins(format!("addiu $sp,$sp,{:#x}", im.big), w(0x27bd_0000 | lo(im.big)), Affine(im.big)));
            v.push(ins(format!("addiu $sp,$sp,{:#x}", im.odd), w(0x27bd_0000 | lo(im.odd)), Affine(im.odd)));
            v.push(ins(format!("addi $sp,$sp,-{:#x}", im.s), w(0x23bd_0000 | lo(-im.s)), Affine(-im.s)));
            v.push(ins("addiu $sp,$sp,0", w(0x27bd_0000), Affine(0)));
            // neutral
            v.push(ins(format!("sw $ra,{:#x}($sp)", im.off), w(0xafbf_0000 | lo(im.off)), Neutral));
            v.push(ins(format!("lw $ra,{:#x}($sp)", im.off), w(0x8fbf_0000 | lo(im.off)), Neutral));
            v.push(ins(format!("sw $fp,{:#x}($sp)", im.off), w(0xafbe_0000 | lo(im.off)), Neutral));
            v.push(ins("move $fp,$sp", w(0x03a0_f021), Neutral));
            v.push(ins("nop", w(0), Neutral));
            v.push(ins("addu $v0,$a0,$a1", w(0x0085_1021), Neutral));
            v.push(ins("addiu $a0,$a0,-1", w(0x2484_ffff), CondChange));
            v.push(ins("addiu $a0,$zero,0", w(0x2404_0000), CondChange));
            // from another register / memory
            v.push(ins("move $sp,$fp", w(0x03c0_e821), Unknown));
            v.push(ins("or $sp,$fp,$zero", w(0x03c0_e825), Unknown));
            v.push(ins("addu $sp,$sp,$t0", w(0x03a8_e821), Unknown));
            v.push(ins("subu $sp,$sp,$v0", w(0x03a2_e823), Unknown));
            v.push(ins(format!("addiu $sp,$fp,{:#x}", im.s), w(0x27dd_0000 | lo(im.s)), Unknown));
            v.push(ins(format!("lw $sp,{:#x}($fp)", im.off), w(0x8fdd_0000 | lo(im.off)), Unknown));
            v.push(ins(format!("lw $sp,{:#x}($sp)", im.off), w(0x8fbd_0000 | lo(im.off)), Unknown));
            // constants / non-offset functions of sp
            v.push(ins(format!("li $sp,{:#x}", im.k & 0x7fff), w(0x241d_0000 | (im.k & 0x7fff)), Odd));
            v.push(ins(format!("lui $sp,{:#x}", im.k & 0xffff), w(0x3c1d_0000 | (im.k & 0xffff)), Odd));
            v.push(ins(format!("ori $sp,$sp,{:#x}", im.odd), w(0x37bd_0000 | lo(im.odd)), Odd));
            v.push(ins("sll $sp,$sp,1", w(0x001d_e840), Odd));
            v.push(ins("addu $sp,$sp,$sp", w(0x03bd_e821), Odd));
            // call (with its delay slot) and returns (delay slot: nop or the frame release)
            v.push(ins("jal 0x400; nop", [w(0x0c00_0100), w(0)].concat(), Stop));
            v.push(ins("jr $ra; nop", [w(0x03e0_0008), w(0)].concat(), Term));
            v.push(ins(format!("jr $ra; addiu $sp,$sp,{:#x}", im.s), [w(0x03e0_0008), w(0x27bd_0000 | lo(im.s))].concat(), Term));
        }
        Fam::Ppc => {
            let w = |x: u32| word(arch, x);
            let lo = |x: i64| (x as u32) & 0xffff;
            v.push(ins(format!("stwu r1,-{:#x}(r1)", im.s), w(0x9421_0000 | lo(-im.s)), Affine(-im.s)));
            v.push(ins(format!("stwu r1,-{:#x}(r1)", im.big), w(0x9421_0000 | lo(-im.big)), Affine(-im.big)));
            v.push(ins(format!("addi r1,r1,{:#x}", im.s), w(0x3821_0000 | lo(im.s)), Affine(im.s)));
            v.push(ins(format!("addi r1,r1,{:#x}", im.big), w(0x3821_0000 | lo(im.big)), Affine(im.big)));
            v.push(ins(format!("addi r1,r1,-{:#x}", im.odd), w(0x3821_0000 | lo(-im.odd)), Affine(-im.odd)));
            v.push(ins("addi r1,r1,0", w(0x3821_0000), Affine(0)));
            // neutral
            v.push(ins(format!("stw r0,{:#x}(r1)", im.off), w(0x9001_0000 | lo(im.off)), Neutral));
            v.push(ins(format!("lwz r0,{:#x}(r1)", im.off), w(0x8001_0000 | lo(im.off)), Neutral));
            v.push(ins(format!("stw r31,{:#x}(r1)", im.off), w(0x93e1_0000 | lo(im.off)), Neutral));
            v.push(ins("mr r31,r1", w(0x7c3f_0b78), Neutral));
            v.push(ins("mflr r0", w(0x7c08_02a6), Neutral));
            v.push(ins("nop", w(0x6000_0000), Neutral));
            v.push(ins("li r3,1", w(0x3860_0001), Neutral));
            v.push(ins("addi r3,r3,-1", w(0x3863_ffff), CondChange));
            // from another register / memory
            v.push(ins("mr r1,r31", w(0x7fe1_fb78), Unknown));
            v.push(ins(format!("addi r1,r31,{:#x}", im.s), w(0x383f_0000 | lo(im.s)), Unknown));
            v.push(ins("add r1,r1,r0", w(0x7c21_0214), Unknown));
            v.push(ins("lwz r1,0(r1)", w(0x8021_0000), Unknown));
            v.push(ins(format!("lwz r1,{:#x}(r31)", im.off), w(0x803f_0000 | lo(im.off)), Unknown));
            // constants / non-offset functions of sp
            v.push(ins(format!("li r1,{:#x}", im.k & 0x7fff), w(0x3820_0000 | (im.k & 0x7fff)), Odd));
            v.push(ins(format!("lis r1,{:#x}", im.k & 0x7fff), w(0x3c20_0000 | (im.k & 0x7fff)), Odd));
            v.push(ins("clrrwi r1,r1,4", w(0x5421_0036), Odd));
            v.push(ins("slwi r1,r1,1", w(0x5421_083c), Odd));
            v.push(ins("add r1,r1,r1", w(0x7c21_0a14), Odd));
            v.push(ins("bl $+4", w(0x4800_0005), Stop));
            v.push(ins("blr", w(0x4e80_0020), Term));
            v.push(ins("bctr", w(0x4e80_0420), Term));
        }
        Fam::A64 => {
            let w = |x: u32| word(arch, x);
            let s = im.s as u32;
            let big = im.big as u32;
            let imm7 = |x: i64| (((x / 8) as u32) & 0x7f) << 15;
            let imm9 = |x: i64| ((x as u32) & 0x1ff) << 12;
            v.push(ins(format!("sub sp,sp,#{:#x}", s), w(0xd100_03ff | s << 10), Affine(-im.s)));
            v.push(ins(format!("add sp,sp,#{:#x}", s), w(0x9100_03ff | s << 10), Affine(im.s)));
            v.push(ins(format!("sub sp,sp,#{:#x}", big), w(0xd100_03ff | big << 10), Affine(-im.big)));
            v.push(ins(format!("add sp,sp,#{:#x}", big), w(0x9100_03ff | big << 10), Affine(im.big)));
            v.push(ins(format!("add sp,sp,#{:#x}", im.odd), w(0x9100_03ff | (im.odd as u32) << 10), Affine(im.odd)));
            v.push(ins("sub sp,sp,#1,lsl #12", w(0xd140_07ff), Affine(-4096)));
            v.push(ins(format!("stp x29,x30,[sp,#-{:#x}]!", s), w(0xa980_7bfd | imm7(-im.s)), Affine(-im.s)));
            v.push(ins(format!("ldp x29,x30,[sp],#{:#x}", s), w(0xa8c0_7bfd | imm7(im.s)), Affine(im.s)));
            v.push(ins(format!("stp x29,x30,[sp],#-{:#x}", s), w(0xa880_7bfd | imm7(-im.s)), Affine(-im.s)));
            v.push(ins(format!("ldp x29,x30,[sp,#{:#x}]!", s), w(0xa9c0_7bfd | imm7(im.s)), Affine(im.s)));
            v.push(ins(format!("str x0,[sp,#-{:#x}]!", s), w(0xf800_0fe0 | imm9(-im.s)), Affine(-im.s)));
            v.push(ins(format!("ldr x0,[sp],#{:#x}", s), w(0xf840_07e0 | imm9(im.s)), Affine(im.s)));
            v.push(ins("sub sp,sp,#0", w(0xd100_03ff), Affine(0)));
            // neutral
            v.push(ins(format!("stp x29,x30,[sp,#{:#x}]", im.off), w(0xa900_7bfd | imm7(im.off)), Neutral));
            v.push(ins(format!("ldp x29,x30,[sp,#{:#x}]", im.off), w(0xa940_7bfd | imm7(im.off)), Neutral));
            v.push(ins("mov x29,sp", w(0x9100_03fd), Neutral));
            v.push(ins(format!("str x0,[sp,#{:#x}]", im.off), w(0xf900_03e0 | ((im.off / 8) as u32) << 10), Neutral));
            v.push(ins(format!("ldr x1,[sp,#{:#x}]", im.off), w(0xf940_03e1 | ((im.off / 8) as u32) << 10), Neutral));
            v.push(ins("nop", w(0xd503_201f), Neutral));
            v.push(ins("mov x2,x1", w(0xaa01_03e2), Neutral));
            v.push(ins(format!("add x1,sp,#{:#x}", s), w(0x9100_03e1 | s << 10), Neutral));
            v.push(ins("sub x0,x0,#1", w(0xd100_0400), CondChange));
            v.push(ins("subs x0,x0,#1", w(0xf100_0400), CondChange));
            // from another register / via memory
            v.push(ins("mov sp,x29", w(0x9100_03bf), Unknown));
            v.push(ins(format!("add sp,x29,#{:#x}", s), w(0x9100_03bf | s << 10), Unknown));
            v.push(ins(format!("sub sp,x29,#{:#x}", s), w(0xd100_03bf | s << 10), Unknown));
            v.push(ins("add sp,sp,x0", w(0x8b20_63ff), Unknown));
            v.push(ins("sub sp,sp,x0", w(0xcb20_63ff), Unknown));
            v.push(ins("ldr x9,[sp]; mov sp,x9", [w(0xf940_03e9), w(0x9100_013f)].concat(), Unknown));
            v.push(ins("bl $+4", w(0x9400_0001), Stop));
            v.push(ins("blr x8", w(0xd63f_0100), Stop));
            v.push(ins("ret", w(0xd65f_03c0), Term));
            v.push(ins("br x16", w(0xd61f_0200), Term));
        }
    }
    v
}

/// an instruction `sp = sp + d` in a form the analysis can follow, if one exists for `d`
fn adjust(arch: usize, d: i64) -> Option<Ins> {
    if d == 0 {
        return None;
    }
    match fam(arch) {
        Fam::X86 => {
            let a64 = ARCHS[arch] == "amd64";
            let mut b = if a64 { vec![0x48] } else { vec![] };
            b.extend_from_slice(&[0x8d, 0xa4, 0x24]);
            b.extend_from_slice(&(d as i32).to_le_bytes());
            Some(ins(format!("lea sp,[sp{:+#x}]", d), b, Class::Affine(d)))
        }
        Fam::Mips if (-0x8000..0x8000).contains(&d) => Some(ins(format!("addiu $sp,$sp,{}", d), word(arch, 0x27bd_0000 | ((d as u32) & 0xffff)), Class::Affine(d))),
        Fam::Ppc if (-0x8000..0x8000).contains(&d) => Some(ins(format!("addi r1,r1,{}", d), word(arch, 0x3821_0000 | ((d as u32) & 0xffff)), Class::Affine(d))),
        Fam::A64 if d.abs() < 4096 => {
            let op = if d < 0 { 0xd100_03ffu32 } else { 0x9100_03ff };
            Some(ins(format!("{} sp,sp,#{}", if d < 0 { "sub" } else { "add" }, d.abs()), word(arch, op | (d.unsigned_abs() as u32) << 10), Class::Affine(d)))
        }
        _ => None,
    }
}

/// number of condition forms of conditional branches
fn n_cc(arch: usize) -> usize {
    match fam(arch) {
        Fam::X86 => 10,
        Fam::Mips => 7,
        Fam::Ppc => 0,
        Fam::A64 => 8,
    }
}

fn branch_size(arch: usize) -> u64 {
    match fam(arch) {
        Fam::X86 => 2,
        Fam::Mips => 8,
        _ => 4,
    }
}

/// encode a conditional (`cc = Some`) or unconditional branch at `pc` to `target`
fn encode_branch(arch: usize, cc: Option<u8>, pc: u64, target: u64, slot: &Option<(String, Vec<u8>)>) -> (String, Vec<u8>) {
    match fam(arch) {
        Fam::X86 => {
            let rel = (target as i64 - (pc as i64 + 2)) as i8 as u8;
            match cc {
                None => (format!("jmp 0x{:x}", target), vec![0xeb, rel]),
                Some(c) => {
                    let (op, n) = [(0x74u8, "jz"), (0x75, "jnz"), (0x72, "jb"), (0x73, "jae"), (0x78, "js"), (0x79, "jns"), (0x7c, "jl"), (0x7d, "jge"), (0x7e, "jle"), (0x7f, "jg")][c as usize % 10];
                    (format!("{} 0x{:x}", n, target), vec![op, rel])
                }
            }
        }
        Fam::Mips => {
            let off = (((target as i64 - (pc as i64 + 4)) / 4) as u32) & 0xffff;
            let (op, n) = match cc {
                None => (0x1000_0000u32, "b"),
                Some(c) => [
                    (0x1080_0000u32, "beq $a0,$zero,"),
                    (0x1480_0000, "bne $a0,$zero,"),
                    (0x1880_0000, "blez $a0,"),
                    (0x1c80_0000, "bgtz $a0,"),
                    (0x0480_0000, "bltz $a0,"),
                    (0x0481_0000, "bgez $a0,"),
                    (0x1085_0000, "beq $a0,$a1,"),
                ][c as usize % 7],
            };
            let (st, sb) = match slot {
                Some((t, b)) => (t.clone(), b.clone()),
                None => ("nop".to_string(), vec![0, 0, 0, 0]),
            };
            let mut b = word(arch, op | off);
            b.extend(sb);
            (format!("{} 0x{:x}; {}", n, target, st), b)
        }
        Fam::Ppc => {
            let off = ((target as i64 - pc as i64) as u32) & 0x03ff_fffc;
            (format!("b 0x{:x}", target), word(arch, 0x4800_0000 | off))
        }
        Fam::A64 => {
            let d = (target as i64 - pc as i64) / 4;
            match cc {
                None => (format!("b 0x{:x}", target), word(arch, 0x1400_0000 | ((d as u32) & 0x03ff_ffff))),
                Some(c) => {
                    let i19 = ((d as u32) & 0x7ffff) << 5;
                    let i14 = ((d as u32) & 0x3fff) << 5;
                    let (w, n) = match c % 8 {
                        0 => (0xb400_0000 | i19, "cbz x0,"),
                        1 => (0xb500_0000 | i19, "cbnz x0,"),
                        2 => (0x3400_0001 | i19, "cbz w1,"),
                        3 => (0x5400_0000 | i19, "b.eq"),
                        4 => (0x5400_0001 | i19, "b.ne"),
                        5 => (0x5400_000b | i19, "b.lt"),
                        6 => (0x3600_0000 | i14, "tbz x0,#0,"),
                        _ => (0x3700_0000 | i14, "tbnz x0,#0,"),
                    };
                    (format!("{} 0x{:x}", n, target), word(arch, w))
                }
            }
        }
    }
}

/// (address, text, bytes) per emitted instruction and the whole image
fn assemble(arch: usize, base: u64, items: &[Item]) -> (Vec<(u64, String, Vec<u8>)>, Vec<u8>) {
    let size = |it: &Item| -> u64 {
        match it {
            Item::I { bytes, .. } => bytes.len() as u64,
            Item::Label(_) => 0,
            Item::Jcc { .. } | Item::Jmp { .. } => branch_size(arch),
        }
    };
    let mut labels: BTreeMap<u8, u64> = BTreeMap::new();
    let mut pc = base;
    for it in items {
        if let Item::Label(l) = it {
            labels.entry(*l).or_insert(pc);
        }
        pc += size(it);
    }
    let end = pc;
    let mut listing = Vec::new();
    let mut image = Vec::new();
    let mut pc = base;
    for it in items {
        match it {
            Item::I { text, bytes } => {
                listing.push((pc, text.clone(), bytes.clone()));
                image.extend_from_slice(bytes);
            }
            Item::Label(_) => {}
            Item::Jcc { cc, label, slot } => {
                // a label that was simplified away points at the end of the image
                let (t, b) = encode_branch(arch, Some(*cc), pc, labels.get(label).copied().unwrap_or(end), slot);
                image.extend_from_slice(&b);
                listing.push((pc, t, b));
            }
            Item::Jmp { label, slot } => {
                let (t, b) = encode_branch(arch, None, pc, labels.get(label).copied().unwrap_or(end), slot);
                image.extend_from_slice(&b);
                listing.push((pc, t, b));
            }
        }
        pc += size(it);
    }
    (listing, image)
}

// ------------------------------------------------------------------------------------------
// generator: lifted programs
// ------------------------------------------------------------------------------------------

fn pick_class(t: &mut Tape, arch: usize, want: &dyn Fn(Class) -> bool) -> Option<Ins> {
    let im = Imm::draw(t);
    let tab: Vec<Ins> = idioms(arch, &im).into_iter().filter(|i| want(i.class)).collect();
    if tab.is_empty() {
        t.raw();
        return None;
    }
    Some(t.pick(&tab).clone())
}

/// a run of 0..=n instructions; `plain` = only offset and neutral forms
fn gen_seg(t: &mut Tape, arch: usize, n: usize, plain: bool) -> Vec<Ins> {
    let k = t.range(0, n);
    let mut v = Vec::new();
    for _ in 0..k {
        let c = if plain { t.weighted(&[60, 25, 15]) } else { t.weighted(&[48, 18, 12, 13, 6, 3]) };
        let i = match c {
            0 => pick_class(t, arch, &|c| matches!(c, Class::Affine(_))),
            1 => pick_class(t, arch, &|c| c == Class::Neutral),
            2 => pick_class(t, arch, &|c| c == Class::CondChange),
            3 => pick_class(t, arch, &|c| c == Class::Unknown),
            4 => pick_class(t, arch, &|c| c == Class::Odd),
            _ => pick_class(t, arch, &|c| c == Class::Stop),
        };
        if let Some(i) = i {
            v.push(i);
        }
    }
    v
}

fn net(seg: &[Ins]) -> Option<i64> {
    let mut d = 0i64;
    for i in seg {
        match i.class {
            Class::Affine(x) => d += x,
            Class::Neutral | Class::CondChange => {}
            _ => return None,
        }
    }
    Some(d)
}

fn items_of(seg: &[Ins]) -> Vec<Item> {
    seg.iter().map(|i| Item::I { text: i.text.clone(), bytes: i.bytes.clone() }).collect()
}

fn gen_lifted(t: &mut Tape, arch: usize) -> (String, Vec<Item>) {
    let ppc = fam(arch) == Fam::Ppc;
    // 0 straight, 1 diamond, 2 triangle, 3 do-while loop, 4 while loop, 5 jump chain,
    // 6 endless loop (the only loop PowerPC can have: falcon lifts no conditional PowerPC branch),
    // 7 diamond inside a loop
    let shape = if ppc { [0usize, 5, 6][t.weighted(&[30, 25, 45])] } else { t.weighted(&[12, 30, 12, 16, 10, 6, 4, 10]) };
    let balanced = t.chance(2, 5);
    let cc = if ppc { 0 } else { t.below(n_cc(arch)) as u8 };
    let cc2 = if ppc { 0 } else { t.below(n_cc(arch)) as u8 };
    let mips = fam(arch) == Fam::Mips;
    let slot = |t: &mut Tape| -> Option<(String, Vec<u8>)> {
        if mips && t.chance(1, 4) {
            pick_class(t, arch, &|c| matches!(c, Class::Affine(_))).map(|i| (i.text, i.bytes))
        } else {
            None
        }
    };
    let term = pick_class(t, arch, &|c| c == Class::Term).expect("terminator");
    let mut a = gen_seg(t, arch, 3, false);
    let mut b = gen_seg(t, arch, 3, balanced);
    let mut c = gen_seg(t, arch, 3, balanced);
    let d = gen_seg(t, arch, 2, false);
    if balanced {
        match shape {
            1 | 7 => {
                if let (Some(x), Some(y)) = (net(&b), net(&c)) {
                    if let Some(fix) = adjust(arch, x - y) {
                        c.push(fix);
                    }
                }
            }
            2 | 3 | 4 | 6 => {
                if let Some(x) = net(&b) {
                    if let Some(fix) = adjust(arch, -x) {
                        b.push(fix);
                    }
                }
            }
            _ => {}
        }
    } else if matches!(shape, 1 | 2 | 3 | 4 | 6 | 7) && b.is_empty() {
        // make sure the unbalanced shapes have something to disagree about
        if let Some(i) = pick_class(t, arch, &|c| matches!(c, Class::Affine(x) if x != 0)) {
            b.push(i);
        }
    }
    if matches!(shape, 3 | 4 | 6 | 7) && a.is_empty() {
        // keep the loop head away from the function entry (the entry must have no incoming edge)
        if let Some(i) = pick_class(t, arch, &|c| matches!(c, Class::Affine(_) | Class::Neutral)) {
            a.push(i);
        }
    }
    let mut v: Vec<Item> = Vec::new();
    let name;
    match shape {
        0 => {
            name = "straight";
            v.extend(items_of(&a));
            v.extend(items_of(&b));
            v.extend(items_of(&d));
        }
        1 => {
            name = if balanced { "diamond-balanced" } else { "diamond-unbalanced" };
            v.extend(items_of(&a));
            v.push(Item::Jcc { cc, label: 1, slot: slot(t) });
            v.extend(items_of(&b));
            v.push(Item::Jmp { label: 2, slot: slot(t) });
            v.push(Item::Label(1));
            v.extend(items_of(&c));
            v.push(Item::Label(2));
            v.extend(items_of(&d));
        }
        2 => {
            name = if balanced { "triangle-balanced" } else { "triangle-unbalanced" };
            v.extend(items_of(&a));
            v.push(Item::Jcc { cc, label: 1, slot: slot(t) });
            v.extend(items_of(&b));
            v.push(Item::Label(1));
            v.extend(items_of(&d));
        }
        3 => {
            name = if balanced { "loop-balanced" } else { "loop-unbalanced" };
            v.extend(items_of(&a));
            v.push(Item::Label(0));
            v.extend(items_of(&b));
            v.push(Item::Jcc { cc, label: 0, slot: slot(t) });
            v.extend(items_of(&d));
        }
        4 => {
            name = if balanced { "while-balanced" } else { "while-unbalanced" };
            v.extend(items_of(&a));
            v.push(Item::Label(0));
            v.push(Item::Jcc { cc, label: 1, slot: slot(t) });
            v.extend(items_of(&b));
            v.push(Item::Jmp { label: 0, slot: slot(t) });
            v.push(Item::Label(1));
            v.extend(items_of(&d));
        }
        5 => {
            name = "jump-chain";
            v.extend(items_of(&a));
            v.push(Item::Jmp { label: 1, slot: slot(t) });
            v.extend(items_of(&c)); // dead
            v.push(Item::Label(1));
            v.extend(items_of(&b));
            v.push(Item::Jmp { label: 2, slot: slot(t) });
            v.push(Item::Label(2));
            v.extend(items_of(&d));
        }
        6 => {
            name = if balanced { "endless-loop-balanced" } else { "endless-loop-unbalanced" };
            v.extend(items_of(&a));
            v.push(Item::Label(0));
            v.extend(items_of(&b));
            v.extend(items_of(&d));
            v.push(Item::Jmp { label: 0, slot: slot(t) });
        }
        _ => {
            name = if balanced { "loop-diamond-balanced" } else { "loop-diamond-unbalanced" };
            v.extend(items_of(&a));
            v.push(Item::Label(0));
            v.push(Item::Jcc { cc, label: 1, slot: slot(t) });
            v.extend(items_of(&b));
            v.push(Item::Jmp { label: 2, slot: slot(t) });
            v.push(Item::Label(1));
            v.extend(items_of(&c));
            v.push(Item::Label(2));
            v.extend(items_of(&d));
            v.push(Item::Jcc { cc: cc2, label: 0, slot: slot(t) });
        }
    }
    v.push(Item::I { text: term.text, bytes: term.bytes });
    (name.to_string(), v)
}

// ------------------------------------------------------------------------------------------
// generator: synthetic IL
// ------------------------------------------------------------------------------------------

fn konst(v: u128, bits: usize) -> il::Expression {
    let m = if bits >= 128 { u128::MAX } else { (1u128 << bits) - 1 };
    il::Expression::constant(il::Constant::new_big(num_bigint::BigUint::from(v & m), bits))
}

fn rename_expr(e: &mut il::Expression, from: &str, to: &str) {
    for s in e.scalars_mut() {
        if s.name() == from {
            *s = il::scalar(to.to_string(), s.bits());
        }
    }
}

fn rename_op(op: &mut il::Operation, from: &str, to: &str) {
    match op {
        il::Operation::Assign { dst, src } => {
            if dst.name() == from {
                *dst = il::scalar(to.to_string(), dst.bits());
            }
            rename_expr(src, from, to);
        }
        il::Operation::Store { index, src } => {
            rename_expr(index, from, to);
            rename_expr(src, from, to);
        }
        il::Operation::Load { dst, index } => {
            if dst.name() == from {
                *dst = il::scalar(to.to_string(), dst.bits());
            }
            rename_expr(index, from, to);
        }
        il::Operation::Branch { target } => rename_expr(target, from, to),
        // intrinsics stop the execution; their operands are not interpreted
        il::Operation::Intrinsic { .. } | il::Operation::Nop { .. } => {}
    }
}

/// one injected stack-pointer operation
fn gen_sp_op(t: &mut Tape, sp: &il::Scalar, others: &[il::Scalar], cond: &il::Expression) -> il::Operation {
    use il::Expression as E;
    let w = sp.bits();
    let b = |e: il::Expression| Box::new(e);
    let spx = || E::Scalar(sp.clone());
    let c = |t: &mut Tape| -> il::Expression {
        let v: u128 = match t.below(8) {
            0 => 4,
            1 => 8,
            2 => 16 * t.range(1, 64) as u128,
            3 => 0,
            4 => t.range(1, 255) as u128,
            5 => (1u128 << (w - 1)) + 16 * t.below(4) as u128,
            6 => ((1u128 << w) - 1) - (16 * t.below(16) as u128) + 1, // a "negative" constant
            _ => t.biased(w),
        };
        konst(v, w)
    };
    let other = |t: &mut Tape| -> il::Scalar { t.pick(others).clone() };
    let assign = |src: il::Expression| il::Operation::Assign { dst: sp.clone(), src };
    match t.weighted(&[24, 24, 6, 8, 4, 8, 6, 2, 3, 5, 5, 3, 2]) {
        0 => assign(E::Add(b(spx()), b(c(t)))),
        1 => assign(E::Sub(b(spx()), b(c(t)))),
        2 => assign(E::Add(b(c(t)), b(spx()))),
        3 => assign(E::Scalar(other(t))),
        4 => assign(E::Add(b(E::Scalar(other(t))), b(c(t)))),
        5 => {
            let index = if t.chance(1, 2) { spx() } else { E::Add(b(E::Scalar(other(t))), b(c(t))) };
            il::Operation::Load { dst: sp.clone(), index }
        }
        6 => il::Operation::Assign { dst: other(t), src: spx() },
        7 => assign(spx()),
        8 => assign(c(t)),
        9 => {
            // non-offset functions of sp alone
            let e = match t.below(7) {
                0 => E::And(b(spx()), b(konst(!0xfu128, w))),
                1 => E::Mul(b(spx()), b(konst(2, w))),
                2 => E::Shl(b(spx()), b(konst(1, w))),
                3 => E::Sub(b(spx()), b(spx())),
                4 => E::Add(b(spx()), b(spx())),
                5 => E::Sub(b(c(t)), b(spx())),
                _ => E::Or(b(spx()), b(c(t))),
            };
            assign(e)
        }
        10 => assign(E::Add(b(E::Sub(b(spx()), b(c(t)))), b(c(t)))),
        11 => il::Operation::Store { index: E::Sub(b(spx()), b(konst(8, w))), src: E::Scalar(other(t)) },
        _ => assign(E::Ite(b(cond.clone()), b(E::Add(b(spx()), b(c(t)))), b(E::Sub(b(spx()), b(c(t)))))),
    }
}

fn gen_synth(t: &mut Tape, arch: usize) -> (String, FnSpec) {
    let ab = abi(arch);
    let mut p = IlParams::default();
    p.max_blocks = *t.pick(&[3usize, 4, 6, 8]);
    p.max_ops = 2;
    p.widths = vec![1, 8, ab.bits];
    p.max_scalars = 4;
    p.addr_bits = ab.bits;
    p.mem = true;
    p.branch = t.chance(1, 6);
    p.intrinsic = t.chance(1, 6);
    p.entry_no_preds = true;
    p.unreachable = t.chance(1, 4);
    p.max_expr_depth = 2;
    p.raw_divisor_permille = 0;
    p.index_gaps_permille = 200;
    p.nop_placeholders = true;
    p.function_index = true;
    let mut g = gen_fn(t, &p);
    for blk in g.spec.blocks.iter_mut() {
        for o in blk.iter_mut() {
            rename_op(&mut o.op, "s0", ab.sp);
        }
    }
    for e in g.spec.edges.iter_mut() {
        if let Some(c) = e.2.as_mut() {
            rename_expr(c, "s0", ab.sp);
        }
    }
    let sp = il::scalar(ab.sp.to_string(), ab.bits);
    let mut others: Vec<il::Scalar> = g.pool.scalars.iter().skip(1).filter(|s| s.1 == ab.bits).map(|s| il::scalar(s.0.clone(), s.1)).collect();
    if others.is_empty() {
        others.push(il::scalar("fp", ab.bits));
    }
    let cond = match g.pool.scalars.iter().find(|s| s.1 == 1) {
        Some(s) => il::Expression::Scalar(il::scalar(s.0.clone(), 1)),
        None => il::Expression::Scalar(il::scalar("flag", 1)),
    };
    let mut addr = 0x8000u64;
    for blk in g.spec.blocks.iter_mut() {
        let k = t.weighted(&[15, 40, 30, 15]);
        for _ in 0..k {
            let mut op = gen_sp_op(t, &sp, &others, &cond);
            // sometimes the stack operation is only a placeholder (a nop standing in for it): it
            // does nothing when executed, so the offset must not move either
            if t.chance(1, 8) && matches!(op, il::Operation::Assign { .. }) {
                op = il::Operation::Nop { placeholder: Some(Box::new(op)) };
            }
            let pos = t.below(blk.len() + 1);
            blk.insert(pos, OpSpec { op, address: Some(addr) });
            addr += 4;
        }
    }
    let shape = format!("synth-{}{}", if g.spec.has_cycle() { "cyclic" } else { "acyclic" }, if p.unreachable { "-unreach" } else { "" });
    (shape, g.spec)
}

fn decode(t: &mut Tape) -> Case {
    let arch = t.below(7);
    let seed = t.u64();
    if t.chance(2, 5) {
        let (shape, spec) = gen_synth(t, arch);
        Case { arch, shape, body: Body::Synth { spec }, seed }
    } else {
        let base = match t.below(4) {
            0 => 0x1000u64,
            1 => 0x40_0000,
            2 => 0x0804_8000,
            _ => 0x7fff_0000,
        };
        let (shape, items) = gen_lifted(t, arch);
        Case { arch, shape, body: Body::Lifted { base, items }, seed }
    }
}

// ------------------------------------------------------------------------------------------
// reference execution
// ------------------------------------------------------------------------------------------

fn mix(a: u64, b: u64) -> u64 {
    let mut z = a ^ b.wrapping_mul(0x9E37_79B9_7F4A_7C15);
    z = z.wrapping_add(0x9E37_79B9_7F4A_7C15);
    z = (z ^ (z >> 30)).wrapping_mul(0xBF58_476D_1CE4_E5B9);
    z = (z ^ (z >> 27)).wrapping_mul(0x94D0_49BB_1331_11EB);
    z ^ (z >> 31)
}

fn mask(bits: usize) -> u128 {
    if bits >= 128 {
        u128::MAX
    } else {
        (1u128 << bits) - 1
    }
}

fn init_value(seed: u64, name: &str, bits: usize) -> Bv {
    let h = mix(seed, engine::fingerprint(&name));
    let r = ((mix(h, 1) as u128) << 64) | mix(h, 2) as u128;
    let v: u128 = match h % 8 {
        0 | 1 => 0,
        2 => 1,
        3 => 1 + ((h >> 8) % 3) as u128,
        4 => mask(bits),
        _ => r,
    };
    Bv::from_u128(v & mask(bits), bits)
}

fn init_sp(seed: u64, exec: usize, bits: usize) -> Bv {
    let h = mix(seed, 0x5350 + exec as u64);
    let top = 1u128 << (bits - 1);
    let v: u128 = match exec % 6 {
        0 => (top - 0x10000) + 16 * ((h % 0x800) as u128),       // typical, aligned, below 2^(w-1)
        1 => (top - 0x10000) + (h % 0x8000) as u128 | 1,         // unaligned
        2 => 4 * (h % 8) as u128,                                // near zero: pushes wrap
        3 => mask(bits) - (h % 64) as u128,                      // near 2^w: pops wrap
        4 => top + (h % 0x1000) as u128,                         // upper half
        _ => ((mix(h, 1) as u128) << 64 | mix(h, 2) as u128) | 3, // anywhere, unaligned
    };
    Bv::from_u128(v & mask(bits), bits)
}

fn lazy_byte(seed: u64, addr: u64) -> u8 {
    (mix(seed ^ 0x6d65_6d6f_7279, addr) >> 24) as u8
}

/// every scalar the function mentions, with its width
fn scalars_of(view: &FnView) -> BTreeMap<String, BTreeSet<usize>> {
    let mut m: BTreeMap<String, BTreeSet<usize>> = BTreeMap::new();
    let mut add = |s: &il::Scalar| {
        m.entry(s.name().to_string()).or_default().insert(s.bits());
    };
    for is in view.blocks.values() {
        for i in is {
            if let Some(v) = i.op.scalars_read() {
                v.into_iter().for_each(&mut add);
            }
            if let Some(v) = i.op.scalars_written() {
                v.into_iter().for_each(&mut add);
            }
        }
    }
    for e in &view.edges {
        if let Some(c) = &e.cond {
            c.scalars().into_iter().for_each(&mut add);
        }
    }
    m
}

#[derive(Clone, Copy, PartialEq, Eq, Debug, PartialOrd, Ord)]
enum Cause {
    None,
    Offset,
    NotOffset,
    OtherScalar,
    Loaded,
}

impl Cause {
    fn name(self) -> &'static str {
        match self {
            Cause::None => "no-sp-write",
            Cause::Offset => "sp-plus-constant",
            Cause::NotOffset => "sp-assigned-not-sp-plus-constant",
            Cause::OtherScalar => "sp-from-other-scalar",
            Cause::Loaded => "sp-loaded",
        }
    }
}

fn is_sp_plus_const(e: &il::Expression, sp: &str) -> bool {
    use il::Expression as E;
    // a constant operand may itself be an expression without scalars (A64: `#1, lsl #12`)
    let k = |x: &il::Expression| x.scalars().is_empty();
    match e {
        E::Scalar(s) => s.name() == sp,
        E::Add(l, r) => (k(r) && is_sp_plus_const(l, sp)) || (k(l) && is_sp_plus_const(r, sp)),
        E::Sub(l, r) => k(r) && is_sp_plus_const(l, sp),
        _ => false,
    }
}

/// how the operation writes the stack pointer (None = it does not)
fn sp_write(op: &il::Operation, sp: &str) -> Option<Cause> {
    match op {
        il::Operation::Load { dst, .. } if dst.name() == sp => Some(Cause::Loaded),
        il::Operation::Assign { dst, src } if dst.name() == sp => Some(if src.scalars().iter().any(|s| s.name() != sp) {
            Cause::OtherScalar
        } else if is_sp_plus_const(src, sp) {
            Cause::Offset
        } else {
            Cause::NotOffset
        }),
        _ => None,
    }
}

struct Visit {
    loc: Loc,
    sp: Bv,
    /// the last executed operation that wrote sp, up to and including this location
    last_writer: Cause,
}

struct Run {
    sp0: Bv,
    visits: Vec<Visit>,
    stop: String,
}

fn run(view: &FnView, scalars: &BTreeMap<String, BTreeSet<usize>>, ab: &Abi, seed: u64, exec: usize) -> Run {
    let mut st = RefState { scalars: BTreeMap::new(), mem: RefMem::new(ab.big) };
    let es = mix(seed, exec as u64 + 1);
    for (name, ws) in scalars {
        // a name used at two widths cannot be given a value that suits both: the narrower use
        // faults and ends the execution (never seen for the stack pointer)
        let w = *ws.iter().next_back().unwrap();
        st.scalars.insert(name.clone(), init_value(es, name, w));
    }
    let sp0 = init_sp(seed, exec, ab.bits);
    st.scalars.insert(ab.sp.to_string(), sp0.clone());
    let mut visits = Vec::new();
    let mut m = match Machine::new(view, st) {
        Ok(m) => m,
        Err(e) => return Run { sp0, visits, stop: format!("{:?}", e) },
    };
    let mut last_writer = Cause::None;
    let mut stop = "step-limit".to_string();
    for _ in 0..MAX_STEPS {
        let loc = m.loc;
        let mut tries = 0;
        let r = loop {
            match m.step() {
                Err(Fault::Unmapped(a)) if tries < 64 => {
                    // memory is a total function of the address: materialise and retry
                    tries += 1;
                    for i in 0..16u64 {
                        if let Some(x) = a.checked_add(i) {
                            m.state.mem.bytes.entry(x).or_insert_with(|| lazy_byte(es, x));
                        }
                    }
                }
                r => break r,
            }
        };
        let executed = match &r {
            Ok(Effect::Branch { .. }) => false,
            Ok(_) => true,
            // the operation ran, choosing the successor failed (end of the function, ...)
            Err(_) => m.last_effect.is_some() && !matches!(m.last_effect, Some(Effect::Branch { .. })),
        };
        if executed {
            if let Loc::Instr(b, i) = loc {
                if let Some(c) = view.instr(b, i).and_then(|iv| sp_write(&iv.op, ab.sp)) {
                    last_writer = c;
                }
            }
            if let Some(sp) = m.state.scalars.get(ab.sp) {
                visits.push(Visit { loc, sp: sp.clone(), last_writer });
            }
        }
        match r {
            Ok(Effect::Branch { .. }) => {
                stop = "branch".into();
                break;
            }
            Ok(_) => {}
            Err(Fault::Intrinsic(_)) => {
                stop = "intrinsic".into();
                break;
            }
            Err(e) => {
                stop = e.kind().to_string();
                break;
            }
        }
    }
    Run { sp0, visits, stop }
}

// ------------------------------------------------------------------------------------------
// the check
// ------------------------------------------------------------------------------------------

fn pl_to_loc(l: &il::ProgramLocation) -> Loc {
    match *l.function_location() {
        il::FunctionLocation::Instruction(b, i) => Loc::Instr(b, i),
        il::FunctionLocation::Edge(h, t) => Loc::Edge(h, t),
        il::FunctionLocation::EmptyBlock(b) => Loc::Empty(b),
    }
}

fn err_variant(e: &falcon::Error) -> String {
    format!("{:?}", e).chars().take_while(|c| c.is_ascii_alphanumeric()).collect()
}

fn build(case: &Case, obs: &mut Obs) -> Result<Option<il::Function>, Failure> {
    let name = ARCHS[case.arch];
    match &case.body {
        Body::Synth { spec } => match spec.build() {
            Ok(f) => Ok(Some(f)),
            Err(e) => Err(Failure::new("harness|synth-build", e)),
        },
        Body::Lifted { base, items } => {
            let (_, image) = assemble(case.arch, *base, items);
            let arch = arch_of(case.arch);
            let endian = if abi(case.arch).big { Endian::Big } else { Endian::Little };
            let mut mem = Memory::new(endian);
            mem.set_memory(*base, image, MemoryPermissions::READ | MemoryPermissions::EXECUTE);
            match guard(|| arch.translator().translate_function(&mem, *base)) {
                Ok(Ok(f)) => Ok(Some(f)),
                Ok(Err(e)) => {
                    // the lifters are C01-C03/C05's business; a program they reject is not an input
                    obs.exclude("lift-rejected");
                    obs.class(&format!("lift-rejected-{}", name));
                    if obs.replay {
                        eprintln!("lift rejected: {}", e);
                    }
                    Ok(None)
                }
                Err(pi) => {
                    obs.exclude("lift-panicked");
                    if obs.replay {
                        eprintln!("lift panicked: {}", pi.msg);
                    }
                    Ok(None)
                }
            }
        }
    }
}

fn check(case: &Case, obs: &mut Obs) -> Result<(), Failure> {
    let name = ARCHS[case.arch];
    let ab = abi(case.arch);
    obs.class(name);
    let lifted = matches!(case.body, Body::Lifted { .. });
    obs.class(if lifted { "lifted" } else { "synthetic" });
    let Some(function) = build(case, obs)? else { return Ok(()) };
    let view = FnView::of(&function);
    let Some(entry) = view.entry else {
        obs.exclude("no-entry");
        return Ok(());
    };
    if !view.in_edges(entry).is_empty() {
        // precondition of the property
        obs.exclude("entry-block-has-incoming-edge");
        return Ok(());
    }
    obs.class(&format!("{}-{}", name, if lifted { "lifted" } else { "synthetic" }));
    obs.class(&format!("shape-{}", case.shape));

    // ---- falcon
    let arch = arch_of(case.arch);
    let result = match guard(|| stack_pointer_offsets(&function, arch.as_ref())) {
        Ok(r) => r,
        Err(pi) => fv::fail!(format!("C17|{}", pi.sig()), "stack_pointer_offsets panicked on {}: {} ({}:{})\n{}", name, pi.msg, pi.file, pi.line, function.control_flow_graph()),
    };
    let reported: BTreeMap<Loc, StackPointerOffset> = match result {
        Ok(m) => m.iter().map(|(k, v)| (pl_to_loc(k), v.clone())).collect(),
        Err(e) => {
            obs.class("analysis-err");
            fv::fail!(
                format!("C17|analysis-err|{}|sp{}", err_variant(&e), ab.bits),
                "the analysis does not complete on {} (stack pointer {}:{}): {}\n{}",
                name, ab.sp, ab.bits, e, function.control_flow_graph()
            );
        }
    };
    obs.class("analysis-ok");
    if obs.replay {
        eprintln!("{}\nreported: {}", function.control_flow_graph(), show_reported(&reported));
    }

    // ---- executions
    let scalars = scalars_of(&view);
    let is_join = |l: Loc| -> bool {
        match l {
            Loc::Instr(b, i) => view.blocks[&b].first().map(|x| x.index) == Some(i) && view.in_edges(b).len() >= 2,
            Loc::Empty(b) => view.in_edges(b).len() >= 2,
            Loc::Edge(..) => false,
        }
    };
    let mut fails: Vec<Failure> = Vec::new();
    let mut deltas: BTreeMap<Loc, BTreeSet<Bv2>> = BTreeMap::new();
    let mut join_visited = false;
    let mut sp_from_other = false;
    let mut checked = 0u64;
    let mut loop_revisit = false;
    for exec in 0..N_EXEC {
        let r = run(&view, &scalars, &ab, case.seed, exec);
        obs.class(&format!("stop-{}", r.stop));
        let mut seen: BTreeSet<Loc> = BTreeSet::new();
        let mut failed_here = false;
        for v in &r.visits {
            if !seen.insert(v.loc) {
                loop_revisit = true;
            }
            if is_join(v.loc) {
                join_visited = true;
            }
            if matches!(v.last_writer, Cause::Loaded | Cause::OtherScalar) {
                sp_from_other = true;
            }
            let d = v.sp.sub(&r.sp0).map_err(|_| Failure::new("harness|sp-width", format!("the stack pointer {} changed width during the execution", ab.sp)))?;
            deltas.entry(v.loc).or_default().insert(Bv2(d.clone()));
            if failed_here {
                continue; // only the first mismatch of an execution points at its cause
            }
            if let Some(StackPointerOffset::Value(off)) = reported.get(&v.loc) {
                checked += 1;
                let want = r.sp0.add(&Bv::from_int(&BigInt::from(*off as i64), ab.bits)).unwrap();
                if want != v.sp {
                    failed_here = true;
                    let own = match v.loc {
                        Loc::Instr(b, i) => view.instr(b, i).and_then(|iv| sp_write(&iv.op, ab.sp)),
                        _ => None,
                    };
                    let cause = match own {
                        Some(c) if c != Cause::Offset => c.name(),
                        _ if is_join(v.loc) => "at-join",
                        Some(c) => c.name(),
                        None => match v.last_writer {
                            Cause::None => "no-sp-write",
                            _ => "propagated",
                        },
                    };
                    fails.push(Failure::new(
                        format!("C17|offset-wrong|{}", cause),
                        format!(
                            "{} ({}), execution {}: at {:?} the analysis reports Value({}) but {} = {} after the location executes and {} at entry (difference {} = {} signed); entry + offset = {}\n{}\nreported: {}\ntrace: {}",
                            name, case.shape, exec, v.loc, off, ab.sp, hex(&v.sp), hex(&r.sp0), hex(&d), d.signed(), hex(&want),
                            function.control_flow_graph(), show_reported(&reported), show_trace(&r)
                        ),
                    ));
                }
            }
        }
    }
    obs.count("checked-visits", checked);
    let disagree = deltas.iter().any(|(l, s)| is_join(*l) && s.len() >= 2);
    if disagree {
        obs.class("paths-disagree");
    }
    if sp_from_other {
        obs.class("sp-from-other");
    }
    if join_visited {
        obs.class("join-visited");
    }
    if loop_revisit {
        obs.class("loop-iterated");
    }
    if checked > 0 {
        obs.class("some-visit-checked");
    }

    if let Some(f) = fails.iter().find(|f| !obs.known(&f.sig)) {
        return Err(f.clone());
    }
    if let Some(f) = fails.into_iter().next() {
        return Err(f);
    }

    let distinct: BTreeSet<isize> = reported.values().filter_map(|v| v.value()).collect();
    if distinct.len() >= 2 {
        obs.class("two-offsets");
    }
    if distinct.len() >= 2 && join_visited {
        obs.nontrivial(&(name, case.shape.clone(), idiom_set(case, ab.sp)));
        obs.class("nontrivial");
    }
    if obs.want_sample() {
        obs.sample(render(case));
    }
    Ok(())
}

/// `Bv` has no `Ord`; order by (width, value)
#[derive(Clone, PartialEq, Eq)]
struct Bv2(Bv);
impl PartialOrd for Bv2 {
    fn partial_cmp(&self, o: &Bv2) -> Option<std::cmp::Ordering> {
        Some(self.cmp(o))
    }
}
impl Ord for Bv2 {
    fn cmp(&self, o: &Bv2) -> std::cmp::Ordering {
        (self.0.w, self.0.unsigned()).cmp(&(o.0.w, o.0.unsigned()))
    }
}

fn hex(b: &Bv) -> String {
    format!("0x{:x}", b.unsigned())
}

fn show_reported(m: &BTreeMap<Loc, StackPointerOffset>) -> String {
    m.iter().map(|(l, v)| format!("{:?}={:?}", l, v)).collect::<Vec<_>>().join(" ")
}

fn show_trace(r: &Run) -> String {
    let mut s: String = r.visits.iter().take(40).map(|v| format!("{:?}:{}", v.loc, hex(&v.sp))).collect::<Vec<_>>().join(" ");
    s.push_str(&format!(" [{}]", r.stop));
    s
}

fn idiom_set(case: &Case, sp: &str) -> Vec<String> {
    let mut s: BTreeSet<String> = BTreeSet::new();
    match &case.body {
        Body::Lifted { items, .. } => {
            for it in items {
                match it {
                    Item::I { text, .. } => {
                        // mnemonic and whether the stack pointer is the destination
                        let mn = text.split_whitespace().next().unwrap_or("");
                        let dst_sp = text.split_whitespace().nth(1).map(|o| o.starts_with(sp) || o.starts_with("r1,")).unwrap_or(false);
                        s.insert(format!("{}{}", mn, if dst_sp { ">sp" } else { "" }));
                    }
                    Item::Jcc { .. } => {
                        s.insert("jcc".into());
                    }
                    Item::Jmp { .. } => {
                        s.insert("jmp".into());
                    }
                    Item::Label(_) => {}
                }
            }
        }
        Body::Synth { spec } => {
            for b in &spec.blocks {
                for o in b {
                    if let Some(c) = sp_write(&o.op, sp) {
                        s.insert(c.name().to_string());
                    }
                }
            }
        }
    }
    s.into_iter().collect()
}

fn render(c: &Case) -> String {
    let ab = abi(c.arch);
    let mut s = format!("{} (sp = {}:{}) {} seed 0x{:x}\n", ARCHS[c.arch], ab.sp, ab.bits, c.shape, c.seed);
    match &c.body {
        Body::Lifted { base, items } => {
            let (listing, image) = assemble(c.arch, *base, items);
            for (a, t, b) in listing {
                s.push_str(&format!("  {:08x}: {:<24} {}\n", a, b.iter().map(|x| format!("{:02x}", x)).collect::<String>(), t));
            }
            s.push_str(&format!("  image: {}\n", image.iter().map(|x| format!("{:02x}", x)).collect::<String>()));
        }
        Body::Synth { spec } => s.push_str(&spec.render()),
    }
    s
}

fn simplify(c: &Case) -> Vec<Case> {
    let mut v = Vec::new();
    match &c.body {
        Body::Lifted { base, items } => {
            for i in 0..items.len() {
                if matches!(items[i], Item::I { .. }) && i + 1 != items.len() {
                    let mut d = c.clone();
                    let mut it = items.clone();
                    it.remove(i);
                    d.body = Body::Lifted { base: *base, items: it };
                    v.push(d);
                }
            }
            for i in 0..items.len() {
                match &items[i] {
                    Item::Jcc { slot: Some(_), cc, label } => {
                        let mut it = items.clone();
                        it[i] = Item::Jcc { cc: *cc, label: *label, slot: None };
                        let mut d = c.clone();
                        d.body = Body::Lifted { base: *base, items: it };
                        v.push(d);
                    }
                    Item::Jmp { slot: Some(_), label } => {
                        let mut it = items.clone();
                        it[i] = Item::Jmp { label: *label, slot: None };
                        let mut d = c.clone();
                        d.body = Body::Lifted { base: *base, items: it };
                        v.push(d);
                    }
                    _ => {}
                }
            }
            if *base != 0x1000 {
                let mut d = c.clone();
                d.body = Body::Lifted { base: 0x1000, items: items.clone() };
                v.push(d);
            }
        }
        Body::Synth { spec } => {
            // drop one operation
            for b in 0..spec.blocks.len() {
                for i in 0..spec.blocks[b].len() {
                    let mut d = c.clone();
                    let mut sp = spec.clone();
                    sp.blocks[b].remove(i);
                    d.body = Body::Synth { spec: sp };
                    v.push(d);
                }
            }
            // drop the last block when nothing refers to it
            let n = spec.blocks.len();
            if n > 1 && spec.entry != Some(n - 1) {
                let mut sp = spec.clone();
                sp.blocks.pop();
                sp.edges.retain(|e| e.0 != n - 1 && e.1 != n - 1);
                if sp.exit == Some(n - 1) {
                    sp.exit = Some(n - 2);
                }
                let mut d = c.clone();
                d.body = Body::Synth { spec: sp };
                v.push(d);
            }
            // drop one edge (guards of the remaining edges are kept: fewer executions continue)
            for i in 0..spec.edges.len() {
                let mut sp = spec.clone();
                sp.edges.remove(i);
                let mut d = c.clone();
                d.body = Body::Synth { spec: sp };
                v.push(d);
            }
        }
    }
    if c.seed > 0xff {
        let mut d = c.clone();
        d.seed &= 0xff;
        v.push(d);
    }
    v
}

/// `c17 --dump-idioms`: lift every table entry alone and print the IL (bring-up aid)
fn dump_idioms() {
    use falcon::translator::Options;
    for arch in 0..7 {
        println!("==== {}", ARCHS[arch]);
        let a = arch_of(arch);
        let tr = a.translator();
        let mut all = idioms(arch, &Imm::fixed());
        for c in 0..n_cc(arch).max(1) {
            let (t, b) = encode_branch(arch, if n_cc(arch) == 0 { None } else { Some(c as u8) }, 0x1000, 0x1010, &None);
            all.push(ins(t, b, Class::Neutral));
        }
        let (t, b) = encode_branch(arch, None, 0x1000, 0x1010, &None);
        all.push(ins(t, b, Class::Neutral));
        for i in all {
            let hexs: String = i.bytes.iter().map(|x| format!("{:02x}", x)).collect();
            match guard(|| tr.translate_block(&i.bytes, 0x1000, &Options::default())) {
                Ok(Ok(r)) => {
                    let mut il_text = Vec::new();
                    for (_, g) in r.instructions() {
                        for b in g.blocks() {
                            for x in b.instructions() {
                                il_text.push(format!("{}", x.operation()));
                            }
                        }
                    }
                    let succ: Vec<String> = r.successors().iter().map(|(a, c)| format!("0x{:x}{}", a, c.as_ref().map(|c| format!(" if {}", c)).unwrap_or_default())).collect();
                    println!("{:<34} {:<18} {:?}: {}  -> [{}]", i.text, hexs, i.class, il_text.join("; "), succ.join(", "));
                }
                Ok(Err(e)) => println!("{:<34} {:<18} {:?}: REJECTED {}", i.text, hexs, i.class, e),
                Err(pi) => println!("{:<34} {:<18} {:?}: PANIC {}", i.text, hexs, i.class, pi.msg),
            }
        }
    }
}

/// libFuzzer entry: the input bytes are the entropy tape (little-endian u32 words); same
/// generator, same oracle as the proptest tiers.
#[allow(dead_code)]
pub fn fuzz_bytes(data: &[u8]) {
    let tape = fv::tape::words_from_bytes(data, 1200);
    let case = decode(&mut Tape::new(&tape));
    engine::fuzz_one("C17", &case, &render, &check);
}

#[allow(dead_code)]
fn main() -> std::process::ExitCode {
    if std::env::args().any(|a| a == "--dump-idioms") {
        dump_idioms();
        return std::process::ExitCode::SUCCESS;
    }
    let mut spec = Spec::new(
        "C17",
        "one of the 7 architectures x {function lifted by translate_function from a program assembled here out of the ISA's stack idioms (push/pop/sub/add/lea/leave, addiu $sp, stwu/addi r1, sub/add sp and pre/post-indexed stp/ldp/str/ldr, plus sp from another register, from memory, from a constant) in the shapes straight / diamond / triangle / do-while / while / jump chain / endless loop / diamond in a loop, balanced or not; synthetic gen_il function (entry without predecessors) over the architecture's SP scalar with injected sp = sp +- c, sp = other, loads into sp, constants, non-offset expressions}; stack_pointer_offsets must be Ok and every reported Value(off) must satisfy SP_after == SP_entry + off (mod 2^width) at every visit of the location in 6 reference executions (refil::Machine, stops at the first Branch/Intrinsic) from states with SP typical/unaligned/near 0/near 2^w; non-trivial = analysis Ok with >= 2 distinct reported numeric offsets and an execution visiting a join (first location of a block with >= 2 incoming edges); distinct = (architecture, shape, set of idioms / kinds of SP writes)",
        Box::new(|_t: Tier| from_tape(1200, decode)),
        |t| t.pick(150_000, 5_000_000),
        check,
    );
    spec.render = render;
    spec.simplify = Some(simplify);
    spec.workers = |t| t.pick(8, 16);
    spec.case_timeout_s = 120;
    let mut floors: Vec<(&'static str, f64)> = ARCHS.iter().map(|a| (*a, 0.10)).collect();
    floors.extend_from_slice(&[
        ("paths-disagree", 0.10),
        ("sp-from-other", 0.10),
        ("join-visited", 0.25),
        ("loop-iterated", 0.05),
        ("x86-lifted", 0.05),
        ("amd64-lifted", 0.05),
        ("mips-lifted", 0.05),
        ("mipsel-lifted", 0.05),
        ("ppc-lifted", 0.05),
        ("aarch64-lifted", 0.05),
        ("aarch64eb-lifted", 0.05),
    ]);
    spec.floors = floors;
    spec.assumptions = vec![
        "which scalar is the stack pointer and its width are ABI facts written in this file (esp:32, rsp:64, $sp:32, r1:32, sp:64), not Architecture::stack_pointer()".into(),
        "'immediately after the location executes' = the state after the operation of an instruction location, and the unchanged state for edge and empty-block locations (the analysis map is keyed by out-states)".into(),
        "'offset interpreted as a signed quantity of the stack pointer's width' is checked in its weakest form: SP_after == SP_entry + off modulo 2^width (accepts 4294967292 as well as -4 on a 32-bit stack pointer)".into(),
        "executions stop at the first Branch or Intrinsic operation (calls, returns): what a callee does to SP is not in the function's IL; the Branch location itself is not checked".into(),
        "only the soundness direction is asserted: Top/Bottom/no entry at a location is always accepted; a number where executions disagree shows up as a wrong number on one of them".into(),
        "memory is a total pseudo-random function of (execution, address) materialised on first access; registers are biased to 0/1/small/all-ones so that both directions of branches are taken".into(),
        "programs the lifter rejects are excluded (counted per architecture, floors on the lifted fraction); PowerPC has no diamonds among the lifted functions because falcon lifts no conditional PowerPC branch - its diamonds come from the synthetic half".into(),
    ];
    engine::main(spec)
}
