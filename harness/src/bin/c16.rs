//! C16 — backing memory is a permissioned byte map under overlapping writes.
//!
//! Domain: histories of set_memory / set32 interleaved with reads, over a 256-byte window at
//! several bases, both endiannesses.  Oracle: BTreeMap<u64,(u8,perms)>, last writer wins.

use falcon::architecture::Endian;
use falcon::memory::backing::Memory;
use falcon::memory::MemoryPermissions;
use fv::engine::{self, guard, Failure, Obs, Spec, Tier};
use fv::tape::{from_tape, Tape};
use serde::{Deserialize, Serialize};
use std::collections::BTreeMap;

#[derive(Clone, Debug, Serialize, Deserialize)]
pub enum Op {
    SetMemory { addr: u64, data: Vec<u8>, perms: u32 },
    Set32 { addr: u64, value: u32 },
    Get { addr: u64, bits: usize },
    Get32 { addr: u64 },
    Get8 { addr: u64 },
    Perm { addr: u64 },
}

#[derive(Clone, Debug, Serialize, Deserialize)]
pub struct Case {
    big_endian: bool,
    base: u64,
    ops: Vec<Op>,
}

const WINDOW: u64 = 256;
const BASES: [u64; 4] = [0x1000, 0, 0xffff_ff80, 0x7fff_ffff_ffff_ff80];

pub fn decode(t: &mut Tape) -> Case {
    let big_endian = t.chance(1, 2);
    let base = BASES[t.below(BASES.len())];
    let n = t.range(1, 40);
    let mut ops = Vec::new();
    // remember written regions so reads / later writes can be aimed at their seams
    let mut regions: Vec<(u64, u64)> = Vec::new();
    let aim = |t: &mut Tape, regions: &Vec<(u64, u64)>| -> u64 {
        if !regions.is_empty() && t.chance(3, 4) {
            let (a, l) = regions[t.below(regions.len())];
            // start, end, just before / after, inside
            let cands = [a, a + l, (a + l).saturating_sub(1), a.saturating_sub(1), a + l / 2, a + 1, (a + l).saturating_sub(3)];
            cands[t.below(cands.len())]
        } else {
            base + t.below(WINDOW as usize) as u64
        }
    };
    for _ in 0..n {
        let op = match t.weighted(&[40, 8, 22, 10, 10, 10]) {
            0 => {
                let (addr, len) = if !regions.is_empty() && t.chance(1, 5) {
                    // exact replacement of an earlier region
                    let (a, l) = regions[t.below(regions.len())];
                    (a, l as usize)
                } else {
                    let addr = aim(t, &regions);
                    let len = match t.below(10) {
                        0 => 0,
                        1 => 1,
                        2 => t.range(40, 48),
                        _ => t.range(1, 24),
                    };
                    (addr, len)
                };
                let fill = t.raw() as u8;
                let data: Vec<u8> = (0..len).map(|i| fill.wrapping_add(i as u8).wrapping_mul(31) ^ (ops.len() as u8)).collect();
                regions.push((addr, len as u64));
                Op::SetMemory { addr, data, perms: t.below(8) as u32 }
            }
            1 => Op::Set32 { addr: aim(t, &regions), value: t.raw() },
            2 => Op::Get {
                addr: aim(t, &regions),
                bits: match t.below(8) {
                    0 => 8,
                    1 => 16,
                    2 => 32,
                    3 => 64,
                    4 => 128,
                    5 => 8 * t.range(1, 20),
                    6 => 0,
                    _ => t.range(1, 70), // mostly not a multiple of 8
                },
            },
            3 => Op::Get32 { addr: aim(t, &regions) },
            4 => Op::Get8 { addr: aim(t, &regions) },
            _ => Op::Perm { addr: aim(t, &regions) },
        };
        ops.push(op);
    }
    Case { big_endian, base, ops }
}

type Model = BTreeMap<u64, (u8, u32)>;

/// the region (maximal run written by one set_memory and not overwritten since) is not tracked:
/// "within one region" for 32-bit accesses is decided from a per-byte writer id.
struct M {
    bytes: Model,
    writer: BTreeMap<u64, usize>,
}

fn assemble(bytes: &[u8], big: bool) -> num_bigint::BigUint {
    if big {
        num_bigint::BigUint::from_bytes_be(bytes)
    } else {
        num_bigint::BigUint::from_bytes_le(bytes)
    }
}

fn model_get(m: &M, addr: u64, n: u64) -> Option<Vec<u8>> {
    let mut v = Vec::new();
    for i in 0..n {
        v.push(m.bytes.get(&(addr.checked_add(i)?))?.0);
    }
    Some(v)
}

pub fn check(case: &Case, obs: &mut Obs) -> Result<(), Failure> {
    let endian = if case.big_endian { Endian::Big } else { Endian::Little };
    let mut mem = Memory::new(endian);
    let mut m = M { bytes: BTreeMap::new(), writer: BTreeMap::new() };
    let mut overlaps = 0usize;
    let mut cross_reads = 0usize;
    let mut shapes: Vec<&'static str> = Vec::new();

    for (step, op) in case.ops.iter().enumerate() {
        match op {
            Op::SetMemory { addr, data, perms } => {
                let p = MemoryPermissions::from_bits_truncate(*perms);
                // classify against the model before applying
                let len = data.len() as u64;
                if len == 0 {
                    obs.class("empty-write");
                    shapes.push("empty");
                } else {
                    let covered = (0..len).filter(|i| m.bytes.contains_key(&(addr + i))).count() as u64;
                    let before = addr.checked_sub(1).map(|a| m.bytes.contains_key(&a)).unwrap_or(false);
                    let after = m.bytes.contains_key(&(addr + len));
                    let first_w = m.writer.get(addr).copied();
                    let wb = addr.checked_sub(1).and_then(|a| m.writer.get(&a).copied());
                    let wa = m.writer.get(&(addr + len)).copied();
                    let inner: Vec<Option<usize>> = (0..len).map(|i| m.writer.get(&(addr + i)).copied()).collect();
                    let one_writer = first_w.is_some() && inner.iter().all(|w| *w == first_w);
                    let shape = if covered == 0 {
                        if before || after { "adjacent" } else { "disjoint" }
                    } else if one_writer && wb != first_w && wa != first_w {
                        "exact-or-cover"
                    } else if one_writer && wb == first_w && wa == first_w {
                        "nested-inside"
                    } else if covered < len {
                        "straddle"
                    } else {
                        "overlap-other"
                    };
                    if covered > 0 {
                        overlaps += 1;
                    }
                    obs.class(match shape {
                        "adjacent" => "shape-adjacent",
                        "disjoint" => "shape-disjoint",
                        "nested-inside" => "shape-nested",
                        "exact-or-cover" => "shape-exact",
                        "straddle" => "shape-straddle",
                        _ => "shape-overlap-other",
                    });
                    shapes.push(shape);
                }
                match guard(|| mem.set_memory(*addr, data.clone(), p)) {
                    Ok(()) => {}
                    Err(pi) => fv::fail!(format!("C16|set_memory|{}", pi.sig()), "step {}: set_memory(0x{:x}, {} bytes) panicked: {}", step, addr, data.len(), pi.msg),
                }
                for (i, b) in data.iter().enumerate() {
                    m.bytes.insert(addr + i as u64, (*b, p.bits()));
                    m.writer.insert(addr + i as u64, step);
                }
            }
            Op::Set32 { addr, value } => {
                // only inside one region (same writer for the four bytes); otherwise outside the property
                let w0 = m.writer.get(addr).copied();
                let same = w0.is_some() && (1..4u64).all(|i| m.writer.get(&(addr + i)).copied() == w0);
                if !same {
                    // not within one region: what the call answers is outside the property, but
                    // when it REJECTS the store (Err) the bytes are still those of the most recent
                    // regions covering them.  (An unmapped first byte panics by design: not issued.)
                    if w0.is_none() {
                        obs.exclude("set32-outside-one-region");
                        continue;
                    }
                    match guard(|| mem.set32(*addr, *value)) {
                        Ok(Err(_)) => {
                            obs.class("set32-rejected-outside-one-region");
                            for i in 0..4u64 {
                                let a = addr.wrapping_add(i);
                                let want = m.bytes.get(&a).map(|e| e.0);
                                let got = match guard(|| mem.get8(a)) {
                                    Ok(g) => g,
                                    Err(pi) => fv::fail!(format!("C16|get8|{}", pi.sig()), "step {}: get8(0x{:x}) panicked: {}", step, a, pi.msg),
                                };
                                if got != want {
                                    fv::fail!("C16|set32|rejected-store-altered-memory", "step {}: set32(0x{:x}, 0x{:x}) was rejected, yet the byte at 0x{:x} now reads {:x?}; the most recent region covering it wrote {:x?}", step, addr, value, a, got, want);
                                }
                            }
                        }
                        Ok(Ok(())) => {
                            // accepted although the four bytes belong to several regions: the
                            // bytes that are mapped take the value (nothing asserted about it)
                            obs.class("set32-accepted-across-regions");
                            let bytes = if case.big_endian { value.to_be_bytes() } else { value.to_le_bytes() };
                            for (i, b) in bytes.iter().enumerate() {
                                if let Some(e) = m.bytes.get_mut(&(addr + i as u64)) {
                                    e.0 = *b;
                                }
                            }
                        }
                        Err(_) => obs.exclude("set32-outside-one-region-panicked"),
                    }
                    continue;
                }
                obs.class("set32-in-region");
                match guard(|| mem.set32(*addr, *value)) {
                    Ok(Ok(())) => {}
                    Ok(Err(e)) => fv::fail!("C16|set32|err-inside-region", "step {}: set32(0x{:x}) inside one region returned Err: {}", step, addr, e),
                    Err(pi) => fv::fail!(format!("C16|set32|{}", pi.sig()), "step {}: set32(0x{:x}) panicked: {}", step, addr, pi.msg),
                }
                let bytes = if case.big_endian { value.to_be_bytes() } else { value.to_le_bytes() };
                for (i, b) in bytes.iter().enumerate() {
                    let e = m.bytes.get_mut(&(addr + i as u64)).unwrap();
                    e.0 = *b;
                }
            }
            Op::Get { addr, bits } => {
                if *bits == 0 || bits % 8 != 0 {
                    // not a byte-multiple width: nothing is prescribed beyond "no panic, no value"
                    match guard(|| mem.get(*addr, *bits)) {
                        Ok(None) => {}
                        Ok(Some(v)) => fv::fail!("C16|get|value-for-bad-width", "get(0x{:x}, {}) returned {}", addr, bits, v),
                        Err(pi) => fv::fail!(format!("C16|get|bad-width|{}", pi.sig()), "get(0x{:x}, {}) panicked: {}", addr, bits, pi.msg),
                    }
                    continue;
                }
                check_get(&mem, &m, *addr, *bits, case.big_endian, step, obs, &mut cross_reads)?;
            }
            Op::Get32 { addr } => {
                let w0 = m.writer.get(addr).copied();
                let same = w0.is_some() && (1..4u64).all(|i| m.writer.get(&(addr + i)).copied() == w0);
                let got = match guard(|| mem.get32(*addr)) {
                    Ok(g) => g,
                    Err(pi) => fv::fail!(format!("C16|get32|{}", pi.sig()), "get32(0x{:x}) panicked: {}", addr, pi.msg),
                };
                if same {
                    obs.class("get32-in-region");
                    let b = model_get(&m, *addr, 4).unwrap();
                    let want = if case.big_endian { u32::from_be_bytes([b[0], b[1], b[2], b[3]]) } else { u32::from_le_bytes([b[0], b[1], b[2], b[3]]) };
                    if got != Some(want) {
                        fv::fail!("C16|get32|wrong", "step {}: get32(0x{:x}) = {:x?}, model 0x{:x}", step, addr, got, want);
                    }
                } else if let (Some(g), Some(b)) = (got, model_get(&m, *addr, 4)) {
                    // straddling regions: outside the property; but a value, if any, must be the bytes
                    let want = if case.big_endian { u32::from_be_bytes([b[0], b[1], b[2], b[3]]) } else { u32::from_le_bytes([b[0], b[1], b[2], b[3]]) };
                    if g != want {
                        fv::fail!("C16|get32|wrong-straddle", "step {}: get32(0x{:x}) = 0x{:x}, bytes say 0x{:x}", step, addr, g, want);
                    }
                } else if got.is_some() {
                    fv::fail!("C16|get32|value-for-unmapped", "step {}: get32(0x{:x}) = {:x?} but a byte is unmapped", step, addr, got);
                }
            }
            Op::Get8 { addr } => check_byte(&mem, &m, *addr, step)?,
            Op::Perm { addr } => check_byte(&mem, &m, *addr, step)?,
        }
    }

    // final sweep over the window ±8 (and every written address)
    let lo = case.base.saturating_sub(8);
    let hi = case.base + WINDOW + 56;
    for a in lo..hi {
        check_byte(&mem, &m, a, usize::MAX)?;
    }
    for a in m.bytes.keys() {
        if *a < lo || *a >= hi {
            check_byte(&mem, &m, *a, usize::MAX)?;
        }
    }
    // point queries at both ends of the address space (nothing is mapped there; no wrap involved)
    for a in [0u64, 1, u64::MAX, u64::MAX - 1, u64::MAX - 7] {
        check_byte(&mem, &m, a, usize::MAX)?;
    }
    // wide reads at every address around region seams
    let mut seams: Vec<u64> = Vec::new();
    let mut prev: Option<(u64, usize)> = None;
    for (a, w) in &m.writer {
        match prev {
            Some((pa, pw)) if pa + 1 == *a && pw == *w => {}
            _ => seams.push(*a),
        }
        prev = Some((*a, *w));
    }
    for s in seams.iter().take(24) {
        for d in [-3i64, -1, 0] {
            let a = s.wrapping_add(d as u64);
            if a > hi {
                continue;
            }
            for bits in [16usize, 32, 64] {
                check_get(&mem, &m, a, bits, case.big_endian, usize::MAX, obs, &mut cross_reads)?;
            }
        }
    }
    // sections: pairwise disjoint, union = model key set
    let secs = match guard(|| mem.sections().iter().map(|(a, s)| (*a, s.len() as u64, s.permissions().bits())).collect::<Vec<_>>()) {
        Ok(s) => s,
        Err(pi) => fv::fail!(format!("C16|sections|{}", pi.sig()), "sections() panicked: {}", pi.msg),
    };
    let mut covered: BTreeMap<u64, u32> = BTreeMap::new();
    let mut last_end: Option<u64> = None;
    for (a, l, p) in &secs {
        if let Some(e) = last_end {
            if *a < e {
                fv::fail!("C16|sections|overlap", "section at 0x{:x} overlaps the previous one ending at 0x{:x}", a, e);
            }
        }
        last_end = Some(a + l);
        for i in 0..*l {
            covered.insert(a + i, *p);
        }
    }
    if covered.len() != m.bytes.len() || covered.keys().zip(m.bytes.keys()).any(|(x, y)| x != y) {
        let extra: Vec<u64> = covered.keys().filter(|k| !m.bytes.contains_key(k)).copied().take(4).collect();
        let missing: Vec<u64> = m.bytes.keys().filter(|k| !covered.contains_key(k)).copied().take(4).collect();
        fv::fail!("C16|sections|union", "sections cover {} bytes, model {}; extra {:x?} missing {:x?}", covered.len(), m.bytes.len(), extra, missing);
    }

    if overlaps >= 2 && cross_reads >= 1 {
        shapes.sort();
        shapes.dedup();
        obs.nontrivial(&(case.big_endian, case.base, shapes, overlaps.min(6), cross_reads.min(6)));
        obs.class("nontrivial");
    }
    if obs.want_sample() {
        obs.sample(render(case));
    }
    Ok(())
}

fn check_byte(mem: &Memory, m: &M, a: u64, step: usize) -> Result<(), Failure> {
    let want = m.bytes.get(&a).copied();
    let got8 = match guard(|| mem.get8(a)) {
        Ok(g) => g,
        Err(pi) => fv::fail!(format!("C16|get8|{}", pi.sig()), "get8(0x{:x}) panicked: {}", a, pi.msg),
    };
    if got8 != want.map(|w| w.0) {
        fv::fail!(
            if want.is_none() { "C16|get8|resurrected" } else if got8.is_none() { "C16|get8|lost" } else { "C16|get8|stale" },
            "step {}: get8(0x{:x}) = {:x?}, model {:x?}", step as i64, a, got8, want.map(|w| w.0)
        );
    }
    let gotp = match guard(|| mem.permissions(a)) {
        Ok(g) => g.map(|p| p.bits()),
        Err(pi) => fv::fail!(format!("C16|permissions|{}", pi.sig()), "permissions(0x{:x}) panicked: {}", a, pi.msg),
    };
    if gotp != want.map(|w| w.1) {
        fv::fail!("C16|permissions|wrong", "step {}: permissions(0x{:x}) = {:?}, model {:?}", step as i64, a, gotp, want.map(|w| w.1));
    }
    Ok(())
}

#[allow(clippy::too_many_arguments)]
fn check_get(mem: &Memory, m: &M, addr: u64, bits: usize, big: bool, step: usize, obs: &mut Obs, cross_reads: &mut usize) -> Result<(), Failure> {
    let n = (bits / 8) as u64;
    let want = model_get(m, addr, n);
    // does the read cross a region seam?
    let ws: Vec<Option<usize>> = (0..n).map(|i| m.writer.get(&(addr + i)).copied()).collect();
    let crosses = ws.windows(2).any(|w| w[0] != w[1]);
    if crosses {
        *cross_reads += 1;
        obs.class(if want.is_some() { "read-across-sections" } else { "read-past-region-end" });
    }
    let got = match guard(|| mem.get(addr, bits)) {
        Ok(g) => g,
        Err(pi) => {
            let kind = if want.is_none() { "range-partly-unmapped" } else { "range-mapped" };
            fv::fail!(format!("C16|get|panic|{}", kind), "step {}: get(0x{:x}, {}) panicked: {} ({}:{})", step as i64, addr, bits, pi.msg, pi.file, pi.line)
        }
    };
    match (got, want) {
        (None, None) => Ok(()),
        (Some(g), Some(b)) => {
            let w = assemble(&b, big);
            if g.bits() != bits || g.value() != &w {
                fv::fail!("C16|get|wrong-value", "step {}: get(0x{:x}, {}) = {}, model bytes {:02x?} ({} endian)", step as i64, addr, bits, g, b, if big { "big" } else { "little" });
            }
            Ok(())
        }
        (Some(g), None) => fv::fail!("C16|get|value-for-unmapped", "step {}: get(0x{:x}, {}) = {} but a byte of the range is unmapped", step as i64, addr, bits, g),
        (None, Some(b)) => fv::fail!("C16|get|absent-for-mapped", "step {}: get(0x{:x}, {}) = None but every byte is mapped ({:02x?})", step as i64, addr, bits, b),
    }
}

pub fn render(c: &Case) -> String {
    let mut s = format!("{} endian, base 0x{:x}:", if c.big_endian { "big" } else { "little" }, c.base);
    for op in &c.ops {
        s.push_str(&match op {
            Op::SetMemory { addr, data, perms } => format!(" set_memory(0x{:x},{}B,p{})", addr, data.len(), perms),
            Op::Set32 { addr, value } => format!(" set32(0x{:x},0x{:x})", addr, value),
            Op::Get { addr, bits } => format!(" get(0x{:x},{})", addr, bits),
            Op::Get32 { addr } => format!(" get32(0x{:x})", addr),
            Op::Get8 { addr } => format!(" get8(0x{:x})", addr),
            Op::Perm { addr } => format!(" perm(0x{:x})", addr),
        });
    }
    s
}

/// libFuzzer entry: the input bytes are the entropy tape (little-endian u32 words).
pub fn fuzz_bytes(data: &[u8]) {
    let mut tape: Vec<u32> = data.chunks(4).map(|c| {
        let mut b = [0u8; 4];
        b[..c.len()].copy_from_slice(c);
        u32::from_le_bytes(b)
    }).collect();
    tape.truncate(400);
    let case = decode(&mut Tape::new(&tape));
    engine::fuzz_one("C16", &case, &render, &check);
}

#[allow(dead_code)]
fn main() -> std::process::ExitCode {
    let mut spec = Spec::new(
        "C16",
        "histories of 1-40 set_memory/set32/get/get32/get8/permissions over a 256-byte window (4 bases, both endiannesses) checked after every step and by a final sweep against a last-writer-wins byte map; non-trivial = at least two overlapping writes and at least one read across a section seam; distinct = (endianness, base, set of overlap shapes, capped overlap and seam-read counts)",
        Box::new(|_t: Tier| from_tape(400, decode)),
        |t| t.pick(1_000_000, 30_000_000),
        check,
    );
    spec.render = render;
    spec.simplify = Some(|c: &Case| {
        let mut v = Vec::new();
        for i in 0..c.ops.len() {
            let mut d = c.clone();
            d.ops.remove(i);
            v.push(d);
        }
        v
    });
    spec.assumptions = vec![
        "regions never wrap the 64-bit address space (bases <= 2^63)".into(),
        "set32 on an unmapped address is not issued; a set32 straddling two regions is issued and only this is asserted: when it is rejected, every byte still reads what the most recent region covering it wrote".into(),
    ];
    spec.floors = vec![
        ("shape-straddle", 0.10),
        ("shape-nested", 0.10),
        ("shape-adjacent", 0.10),
        ("shape-exact", 0.10),
        ("empty-write", 0.05),
        ("read-past-region-end", 0.10),
        ("read-across-sections", 0.10),
        ("set32-rejected-outside-one-region", 0.10),
    ];
    engine::main(spec)
}
