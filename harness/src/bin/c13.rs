//! C13 — constant propagation never reports a value an execution contradicts.
//!
//! Domain: IL functions from `gen_fn` (constant assignments, arithmetic on them, branches
//! assigning different constants, loop-carried updates, loads, stores, intrinsics, calls =
//! `Branch` inside a block), with and without blocks that are unreachable from the entry (some of
//! which feed live blocks), in four modes: `Arbitrary` (nothing guaranteed), `Repaired` (arbitrary
//! plus a minimal prologue for exactly the scalars that could be read before being assigned),
//! `Prologue` (`IlParams.definitely_assigned`: the entry block assigns every pool scalar) and
//! `Punned` (one name used at two widths).  x 1-3 executions each (initial state, havoc seed).
//!
//! Oracle: `fv::refil::Machine` (Bv arithmetic, byte-map memory, explicit locations).  A `Branch`
//! is a call that returns with every defined scalar clobbered (DESIGN 1.8); an intrinsic assigns
//! its declared written scalars oracle-chosen values; an intrinsic with *undeclared* effects
//! ("assume the intrinsic does anything", il/intrinsic.rs) clobbers every defined scalar — that last
//! rule is implemented here, the shared machine writes nothing in that case.  Membership of the
//! "no scalar can be read before it is assigned" domain is decided by a must-assigned data-flow
//! over the `FnView` location graph (paths from the entry only), cross-checked against every
//! execution.
//!
//! Relation (property text): (1) on a definitely-assigned function `constants()` returns `Ok`;
//! (2) whenever it returns `Ok`: at every executed location L, for every scalar s the function
//! itself has assigned in this execution and for which the map entry of L reports a constant,
//! the value of s immediately before L executes is exactly that constant; (3) for every
//! expression occurring at L (operands, guards, their sub-expressions) whose scalars have all been
//! assigned by the function in this execution, `Constants::eval` declines or returns the value
//! the reference computes for it in the state immediately before L.

use falcon::analysis::constants::{constants, Constants};
use falcon::il;
use falcon::Error;
use fv::bv::Bv;
use fv::engine::{self, guard, Failure, Obs, Spec, Tier};
use fv::gen_il::{gen_fn, gen_state, FnSpec, IlParams, OpSpec, Pool};
use fv::refil::{self, Effect, FnView, IntrinsicMode, Loc, Machine, RefState};
use fv::tape::{from_tape, Tape};
use serde::{Deserialize, Serialize};
use std::collections::{BTreeMap, BTreeSet};

// ------------------------------------------------------------------------------------------
// case
// ------------------------------------------------------------------------------------------

#[derive(Clone, Copy, Debug, Serialize, Deserialize, PartialEq, Eq, Hash)]
enum Mode {
    Arbitrary,
    Repaired,
    Prologue,
    Punned,
    /// like `Repaired`, but one of the scalars that needs an initialisation gets it in some
    /// other block instead of the entry block: assigned on some paths only
    Partial,
}

#[derive(Clone, Debug, Serialize, Deserialize)]
struct Run {
    init: RefState,
    havoc_seed: u64,
}

#[derive(Clone, Debug, Serialize, Deserialize)]
struct Case {
    mode: Mode,
    spec: FnSpec,
    pool: Pool,
    runs: Vec<Run>,
}

const MAX_STEPS: usize = 160;

// ------------------------------------------------------------------------------------------
// expression helpers (own traversals: nothing of falcon's expression machinery is used)
// ------------------------------------------------------------------------------------------

fn children(e: &il::Expression) -> Vec<&il::Expression> {
    use il::Expression as E;
    match e {
        E::Scalar(_) | E::Constant(_) => vec![],
        E::Add(l, r) | E::Sub(l, r) | E::Mul(l, r) | E::Divu(l, r) | E::Modu(l, r) | E::Divs(l, r) | E::Mods(l, r)
        | E::And(l, r) | E::Or(l, r) | E::Xor(l, r) | E::Shl(l, r) | E::Shr(l, r) | E::AShr(l, r) | E::Cmpeq(l, r)
        | E::Cmpneq(l, r) | E::Cmplts(l, r) | E::Cmpltu(l, r) => vec![l, r],
        E::Zext(_, x) | E::Sext(_, x) | E::Trun(_, x) => vec![x],
        E::Ite(c, t, f) => vec![c, t, f],
    }
}

fn subexprs<'a>(e: &'a il::Expression, out: &mut Vec<&'a il::Expression>) {
    out.push(e);
    for c in children(e) {
        subexprs(c, out);
    }
}

fn scalars_of(e: &il::Expression, out: &mut BTreeSet<(String, usize)>) {
    if let il::Expression::Scalar(s) = e {
        out.insert((s.name().to_string(), s.bits()));
    }
    for c in children(e) {
        scalars_of(c, out);
    }
}

fn rename_expr(e: &il::Expression, from: &str, to: &str) -> il::Expression {
    use il::Expression as E;
    let r = |x: &il::Expression| Box::new(rename_expr(x, from, to));
    match e {
        E::Scalar(s) => {
            if s.name() == from {
                E::Scalar(il::scalar(to.to_string(), s.bits()))
            } else {
                e.clone()
            }
        }
        E::Constant(_) => e.clone(),
        E::Add(a, b) => E::Add(r(a), r(b)),
        E::Sub(a, b) => E::Sub(r(a), r(b)),
        E::Mul(a, b) => E::Mul(r(a), r(b)),
        E::Divu(a, b) => E::Divu(r(a), r(b)),
        E::Modu(a, b) => E::Modu(r(a), r(b)),
        E::Divs(a, b) => E::Divs(r(a), r(b)),
        E::Mods(a, b) => E::Mods(r(a), r(b)),
        E::And(a, b) => E::And(r(a), r(b)),
        E::Or(a, b) => E::Or(r(a), r(b)),
        E::Xor(a, b) => E::Xor(r(a), r(b)),
        E::Shl(a, b) => E::Shl(r(a), r(b)),
        E::Shr(a, b) => E::Shr(r(a), r(b)),
        E::AShr(a, b) => E::AShr(r(a), r(b)),
        E::Cmpeq(a, b) => E::Cmpeq(r(a), r(b)),
        E::Cmpneq(a, b) => E::Cmpneq(r(a), r(b)),
        E::Cmplts(a, b) => E::Cmplts(r(a), r(b)),
        E::Cmpltu(a, b) => E::Cmpltu(r(a), r(b)),
        E::Zext(n, x) => E::Zext(*n, r(x)),
        E::Sext(n, x) => E::Sext(*n, r(x)),
        E::Trun(n, x) => E::Trun(*n, r(x)),
        E::Ite(c, t, f) => E::Ite(r(c), r(t), r(f)),
    }
}

fn rename_scalar(s: &il::Scalar, from: &str, to: &str) -> il::Scalar {
    if s.name() == from {
        il::scalar(to.to_string(), s.bits())
    } else {
        s.clone()
    }
}

fn rename_op(op: &il::Operation, from: &str, to: &str) -> il::Operation {
    use il::Operation as O;
    match op {
        O::Assign { dst, src } => O::Assign { dst: rename_scalar(dst, from, to), src: rename_expr(src, from, to) },
        O::Store { index, src } => O::Store { index: rename_expr(index, from, to), src: rename_expr(src, from, to) },
        O::Load { dst, index } => O::Load { dst: rename_scalar(dst, from, to), index: rename_expr(index, from, to) },
        O::Branch { target } => O::Branch { target: rename_expr(target, from, to) },
        O::Intrinsic { intrinsic } => {
            let rn = |v: Option<&[il::Expression]>| v.map(|v| v.iter().map(|e| rename_expr(e, from, to)).collect::<Vec<_>>());
            O::Intrinsic {
                intrinsic: il::Intrinsic::new(
                    intrinsic.mnemonic().to_string(),
                    intrinsic.instruction_str().to_string(),
                    intrinsic.arguments().iter().map(|e| rename_expr(e, from, to)).collect(),
                    rn(intrinsic.written_expressions()),
                    rn(intrinsic.read_expressions()),
                    intrinsic.bytes().to_vec(),
                ),
            }
        }
        O::Nop { .. } => op.clone(),
    }
}

// ------------------------------------------------------------------------------------------
// what a location reads / defines (from the snapshot)
// ------------------------------------------------------------------------------------------

/// expressions occurring at a location (top level)
fn exprs_at<'a>(view: &'a FnView, l: Loc) -> Vec<&'a il::Expression> {
    match l {
        Loc::Instr(b, i) => match view.instr(b, i).map(|iv| &iv.op) {
            Some(il::Operation::Assign { src, .. }) => vec![src],
            Some(il::Operation::Store { index, src }) => vec![index, src],
            Some(il::Operation::Load { index, .. }) => vec![index],
            Some(il::Operation::Branch { target }) => vec![target],
            Some(il::Operation::Intrinsic { intrinsic }) => {
                let mut v: Vec<&il::Expression> = intrinsic.arguments().iter().collect();
                if let Some(r) = intrinsic.read_expressions() {
                    v.extend(r.iter());
                }
                v
            }
            _ => vec![],
        },
        Loc::Edge(h, t) => view.edges.iter().filter(|e| e.head == h && e.tail == t).filter_map(|e| e.cond.as_ref()).collect(),
        Loc::Empty(_) => vec![],
    }
}

/// None = "may read anything" (intrinsic with undeclared reads)
fn names_read(view: &FnView, l: Loc) -> Option<BTreeSet<String>> {
    if let Loc::Instr(b, i) = l {
        if let Some(il::Operation::Intrinsic { intrinsic }) = view.instr(b, i).map(|iv| &iv.op) {
            if intrinsic.read_expressions().is_none() {
                return None;
            }
        }
    }
    let mut s = BTreeSet::new();
    for e in exprs_at(view, l) {
        scalars_of(e, &mut s);
    }
    Some(s.into_iter().map(|x| x.0).collect())
}

/// names certainly assigned by executing the location (intrinsic writes are not counted: the
/// declaration says what may be written; a smaller must-set only shrinks the domain in which
/// completion is demanded)
fn names_defined(view: &FnView, l: Loc) -> Vec<String> {
    if let Loc::Instr(b, i) = l {
        match view.instr(b, i).map(|iv| &iv.op) {
            Some(il::Operation::Assign { dst, .. }) | Some(il::Operation::Load { dst, .. }) => return vec![dst.name().to_string()],
            _ => {}
        }
    }
    vec![]
}

fn all_scalars(view: &FnView) -> BTreeSet<(String, usize)> {
    let mut s = BTreeSet::new();
    for l in view.all_locs() {
        for e in exprs_at(view, l) {
            scalars_of(e, &mut s);
        }
        if let Loc::Instr(b, i) = l {
            match view.instr(b, i).map(|iv| &iv.op) {
                Some(il::Operation::Assign { dst, .. }) | Some(il::Operation::Load { dst, .. }) => {
                    s.insert((dst.name().to_string(), dst.bits()));
                }
                Some(il::Operation::Intrinsic { intrinsic }) => {
                    if let Some(w) = intrinsic.written_expressions() {
                        for e in w {
                            scalars_of(e, &mut s);
                        }
                    }
                }
                _ => {}
            }
        }
    }
    s
}

fn reachable_locs(view: &FnView) -> BTreeSet<Loc> {
    let mut seen = BTreeSet::new();
    let mut stack: Vec<Loc> = view.entry_loc().into_iter().collect();
    while let Some(l) = stack.pop() {
        if seen.insert(l) {
            stack.extend(view.succ_locs(l));
        }
    }
    seen
}

/// Must-assigned data-flow over the reachable location graph.  Returns the names that some
/// reachable location may read although a path from the entry does not assign them first
/// (empty = the function is in the "no scalar can be read before it is assigned" domain).
fn maybe_unassigned_reads(view: &FnView, reach: &BTreeSet<Loc>, names: &BTreeSet<String>) -> BTreeSet<String> {
    let entry = match view.entry_loc() {
        Ok(l) => l,
        Err(_) => return names.clone(),
    };
    // IN[l]: start from "everything" and shrink
    let mut inn: BTreeMap<Loc, BTreeSet<String>> = reach.iter().map(|l| (*l, names.clone())).collect();
    let out_of = |l: Loc, inn: &BTreeMap<Loc, BTreeSet<String>>| -> BTreeSet<String> {
        let mut o = inn[&l].clone();
        o.extend(names_defined(view, l));
        o
    };
    loop {
        let mut changed = false;
        for l in reach {
            let mut acc: Option<BTreeSet<String>> = if *l == entry { Some(BTreeSet::new()) } else { None };
            for p in view.pred_locs(*l) {
                if !reach.contains(&p) {
                    continue;
                }
                let o = out_of(p, &inn);
                acc = Some(match acc {
                    None => o,
                    Some(a) => a.intersection(&o).cloned().collect(),
                });
            }
            let new = acc.unwrap_or_default();
            if new != inn[l] {
                inn.insert(*l, new);
                changed = true;
            }
        }
        if !changed {
            break;
        }
    }
    let mut bad = BTreeSet::new();
    for l in reach {
        match names_read(view, *l) {
            None => bad.extend(names.difference(&inn[l]).cloned()),
            Some(r) => bad.extend(r.difference(&inn[l]).cloned()),
        }
    }
    bad
}

// ------------------------------------------------------------------------------------------
// generator
// ------------------------------------------------------------------------------------------

fn konst(v: u128, bits: usize) -> il::Expression {
    il::Expression::constant(il::Constant::new_big(num_bigint::BigUint::from(v), bits))
}

fn decode(t: &mut Tape) -> Case {
    let mode = [Mode::Arbitrary, Mode::Repaired, Mode::Prologue, Mode::Punned, Mode::Partial][t.weighted(&[16, 30, 30, 10, 14])];
    let mut p = IlParams::default();
    p.max_blocks = *t.pick(&[2usize, 3, 5, 7, 9]);
    p.max_ops = *t.pick(&[1usize, 2, 3, 4]);
    p.max_scalars = *t.pick(&[3usize, 4, 6]);
    p.max_expr_depth = *t.pick(&[1usize, 2, 3]);
    p.mem = !t.chance(1, 5);
    p.branch = t.chance(2, 3);
    p.intrinsic = t.chance(2, 3);
    p.unreachable = t.chance(3, 5);
    p.entry_no_preds = t.chance(1, 4);
    p.definitely_assigned = mode == Mode::Prologue;
    if mode == Mode::Punned {
        // few widths, so that the two uses of the punned name meet in extensions / truncations
        p.widths = vec![8, 16, 32, 64];
    }
    p.index_gaps_permille = 200;
    p.nop_placeholders = true;
    p.function_index = true;
    let g = gen_fn(t, &p);
    let mut spec = g.spec;
    let mut pool = g.pool;
    match mode {
        Mode::Repaired => repair(t, &mut spec, &pool, &p, false),
        Mode::Partial => repair(t, &mut spec, &pool, &p, true),
        Mode::Punned => pun(t, &mut spec, &mut pool),
        _ => {}
    }
    // a loop-carried copy chain: every trip round the loop makes one more scalar of the chain
    // unknown, so the analysis needs about as many rounds as the chain is long (a budget tied to
    // the size of the function is exhausted; the analysis must still complete)
    if matches!(mode, Mode::Repaired | Mode::Prologue | Mode::Arbitrary) && t.chance(1, 10) {
        let nb = spec.blocks.len();
        let on_cycle: Vec<usize> = (0..nb)
            .filter(|b| {
                let mut seen = std::collections::BTreeSet::new();
                let mut stack: Vec<usize> = spec.edges.iter().filter(|e| e.0 == *b).map(|e| e.1).collect();
                while let Some(x) = stack.pop() {
                    if seen.insert(x) {
                        stack.extend(spec.edges.iter().filter(|e| e.0 == x).map(|e| e.1));
                    }
                }
                seen.contains(b)
            })
            .collect();
        if let (Some(entry), false) = (spec.entry, on_cycle.is_empty()) {
            let b = on_cycle[t.below(on_cycle.len())];
            let k = t.range(9, 16);
            let ch = |i: usize| il::scalar(format!("ch{}", i), 8);
            let mut addr = 0xc000u64;
            let mut mk = |op: il::Operation| {
                addr += 4;
                OpSpec { op, address: Some(addr) }
            };
            let mut body: Vec<OpSpec> = Vec::new();
            for i in (1..k).rev() {
                body.push(mk(il::Operation::Assign { dst: ch(i), src: il::Expression::Scalar(ch(i - 1)) }));
            }
            body.push(mk(il::Operation::Assign { dst: ch(0), src: il::Expression::Add(Box::new(il::Expression::Scalar(ch(0))), Box::new(il::Expression::constant(il::const_(1, 8)))) }));
            let tail = spec.blocks[b].split_off(0);
            spec.blocks[b] = body;
            spec.blocks[b].extend(tail);
            let mut pro: Vec<OpSpec> = (0..k).map(|i| mk(il::Operation::Assign { dst: ch(i), src: il::Expression::constant(il::const_(0, 8)) })).collect();
            let tail = spec.blocks[entry].split_off(0);
            pro.extend(tail);
            spec.blocks[entry] = pro;
            spec.gaps.clear();
            for i in 0..k {
                pool.scalars.push((format!("ch{}", i), 8));
            }
        }
    }
    // arbitrary functions only (nothing is promised about the order of assignments and reads
    // there): an instruction scheduler went over a block - two non-branch instructions changed
    // places through instructions_mut(), indices are no longer ascending in execution order
    if mode == Mode::Arbitrary && t.chance(1, 2) {
        for _ in 0..t.range(1, 2) {
            let cands: Vec<usize> = (0..spec.blocks.len()).filter(|k| spec.blocks[*k].iter().filter(|o| !matches!(o.op, il::Operation::Branch { .. })).count() >= 2).collect();
            if cands.is_empty() {
                break;
            }
            let blk = cands[t.below(cands.len())];
            let pos: Vec<usize> = (0..spec.blocks[blk].len()).filter(|k| !matches!(spec.blocks[blk][*k].op, il::Operation::Branch { .. })).collect();
            let i = t.below(pos.len() - 1);
            let j = i + 1 + t.below(pos.len() - 1 - i);
            spec.swaps.push((blk, pos[i], pos[j]));
        }
    }
    let big_endian = t.chance(1, 2);
    let n = t.range(1, 3);
    let mut runs = Vec::new();
    for _ in 0..n {
        let init = gen_state(t, &pool, &p, big_endian, 0);
        runs.push(Run { init, havoc_seed: t.raw() as u64 });
    }
    Case { mode, spec, pool, runs }
}

/// Prepend to the entry block an initialisation of exactly those scalars that could be read
/// before being assigned (a constant, or a load from the scratch window = a defined unknown).
fn repair(t: &mut Tape, spec: &mut FnSpec, pool: &Pool, p: &IlParams, partial: bool) {
    let Ok(cfg) = spec.build_cfg() else { return };
    let view = FnView::of_cfg(&cfg);
    let reach = reachable_locs(&view);
    let names: BTreeSet<String> = all_scalars(&view).into_iter().map(|x| x.0).chain(pool.scalars.iter().map(|s| s.0.clone())).collect();
    let bad = maybe_unassigned_reads(&view, &reach, &names);
    let entry = spec.entry.unwrap_or(0);
    let mut pro = Vec::new();
    let needy: Vec<&String> = pool.scalars.iter().map(|s| &s.0).filter(|n| bad.contains(*n)).collect();
    let victim: Option<String> = if partial && !needy.is_empty() && spec.blocks.len() > 1 { Some((*t.pick(&needy)).clone()) } else { None };
    for (k, (name, w)) in pool.scalars.iter().enumerate() {
        if !bad.contains(name) {
            continue;
        }
        let dst = il::scalar(name.clone(), *w);
        if victim.as_ref() == Some(name) {
            // a constant at the head of some block other than the entry block
            let others: Vec<usize> = (0..spec.blocks.len()).filter(|b| *b != entry).collect();
            let b = *t.pick(&others);
            let op = il::Operation::Assign { dst, src: konst(t.biased(*w), *w) };
            spec.blocks[b].insert(0, OpSpec { op, address: Some(0x3800) });
            continue;
        }
        let op = if *w % 8 == 0 && *w <= 64 && p.mem && t.chance(1, 3) {
            il::Operation::Load { dst, index: konst((p.scratch_base + t.below(16) as u64) as u128, p.addr_bits) }
        } else {
            il::Operation::Assign { dst, src: konst(t.biased(*w), *w) }
        };
        pro.push(OpSpec { op, address: Some(0x3000 + 4 * k as u64) });
    }
    pro.extend(spec.blocks[entry].drain(..));
    spec.blocks[entry] = pro;
}

/// Give two pool scalars of different widths the same name.
fn pun(t: &mut Tape, spec: &mut FnSpec, pool: &mut Pool) {
    let n = pool.scalars.len();
    let i = t.below(n);
    let cands: Vec<usize> = (0..n).filter(|j| pool.scalars[*j].1 != pool.scalars[i].1).collect();
    if cands.is_empty() {
        return;
    }
    let j = *t.pick(&cands);
    let to = pool.scalars[i].0.clone();
    let from = pool.scalars[j].0.clone();
    for b in spec.blocks.iter_mut() {
        for o in b.iter_mut() {
            o.op = rename_op(&o.op, &from, &to);
        }
    }
    for e in spec.edges.iter_mut() {
        if let Some(c) = &e.2 {
            e.2 = Some(rename_expr(c, &from, &to));
        }
    }
    // often: both widths live in one straight line, `n:wi = k1; n:wj = k2; n:wj = n:wj` (no
    // ill-sorted read: every read of the name finds the width it was last written with)
    if t.chance(1, 2) {
        let (wi, wj) = (pool.scalars[i].1, pool.scalars[j].1);
        let b = t.below(spec.blocks.len());
        let at = t.below(spec.blocks[b].len() + 1);
        let ops = vec![
            il::Operation::Assign { dst: il::scalar(to.clone(), wi), src: konst(t.biased(wi), wi) },
            il::Operation::Assign { dst: il::scalar(to.clone(), wj), src: konst(t.biased(wj), wj) },
            il::Operation::Assign { dst: il::scalar(to.clone(), wj), src: il::Expression::Scalar(il::scalar(to.clone(), wj)) },
        ];
        for (k, op) in ops.into_iter().enumerate() {
            spec.blocks[b].insert(at + k, OpSpec { op, address: Some(0x3900 + 4 * k as u64) });
        }
    }
    pool.scalars.remove(j);
}

// ------------------------------------------------------------------------------------------
// check
// ------------------------------------------------------------------------------------------

fn pl_to_loc(l: &il::ProgramLocation) -> Loc {
    match *l.function_location() {
        il::FunctionLocation::Instruction(b, i) => Loc::Instr(b, i),
        il::FunctionLocation::Edge(h, t) => Loc::Edge(h, t),
        il::FunctionLocation::EmptyBlock(b) => Loc::Empty(b),
    }
}

fn loc_kind(l: Loc) -> &'static str {
    match l {
        Loc::Instr(..) => "instruction",
        Loc::Edge(..) => "edge",
        Loc::Empty(..) => "empty-block",
    }
}

struct Stats {
    scalar_cmp: u64,
    eval_cmp: u64,
    eval_declined: u64,
    after_join_or_loop: u64,
    joins: u64,
    revisits: u64,
    steps: u64,
}

#[allow(clippy::too_many_arguments)]
fn run_one(
    view: &FnView,
    reach: &BTreeSet<Loc>,
    scalars: &BTreeSet<(String, usize)>,
    cmap: &BTreeMap<Loc, &Constants>,
    run: &Run,
    da: bool,
    st: &mut Stats,
    obs: &mut Obs,
) -> Result<(), Failure> {
    let mut m = match Machine::new(view, run.init.clone()) {
        Ok(m) => m,
        Err(f) => fv::fail!("C13|harness|machine", "cannot start the reference machine: {:?}", f),
    };
    m.intrinsics = IntrinsicMode::Havoc;
    m.havoc_seed = run.havoc_seed;
    let entry = m.loc;
    // name -> width of the most recent assignment by the function itself in this execution
    let mut assigned: BTreeMap<String, usize> = BTreeMap::new();
    // how the current value of a name came about (for signatures only)
    let mut last_write: BTreeMap<String, &'static str> = BTreeMap::new();
    // names whose current value was computed from a scalar the function had not assigned
    let mut tainted: BTreeSet<String> = BTreeSet::new();
    let mut visited: BTreeSet<Loc> = BTreeSet::new();
    let mut after = false; // passed >= 1 join or re-entered a location

    for _ in 0..MAX_STEPS {
        let l = m.loc;
        st.steps += 1;
        if !visited.insert(l) {
            st.revisits += 1;
            after = true;
        }
        let npred = view.pred_locs(l).iter().filter(|p| reach.contains(p)).count() + usize::from(l == entry);
        if npred >= 2 {
            st.joins += 1;
            after = true;
        }
        let usable = |name: &str, bits: usize, m: &Machine| -> bool {
            assigned.get(name) == Some(&bits) && m.state.scalars.get(name).map(|v| v.w) == Some(bits)
        };

        // ---- the state immediately before L executes, against the map entry of L
        if let Some(c) = cmap.get(&l) {
            for (name, bits) in scalars {
                let sc = il::scalar(name.clone(), *bits);
                let reported = match guard(|| c.scalar(&sc).cloned()) {
                    Ok(r) => r,
                    Err(pi) => fv::fail!(format!("C13|scalar|{}", pi.sig()), "Constants::scalar({}) panicked: {}", sc, pi.msg),
                };
                let Some(k) = reported else { continue };
                if !usable(name, *bits, &m) {
                    continue;
                }
                let have = &m.state.scalars[name];
                st.scalar_cmp += 1;
                if after {
                    st.after_join_or_loop += 1;
                }
                if Bv::from_constant(&k) != *have {
                    let how = last_write.get(name).copied().unwrap_or("?");
                    let clean = if tainted.contains(name) { "value-derived-from-unassigned-scalar" } else { "clean" };
                    fv::fail!(
                        format!("C13|scalar|contradicted|last-write={}|{}", how, clean),
                        "at {:?} ({}) the analysis reports {} = {} but the execution holds {} immediately before it executes (last written by {}; {} function, {} steps into the run)",
                        l, loc_kind(l), sc, k, have, how, if da { "definitely-assigned" } else { "not definitely-assigned" }, st.steps
                    );
                }
            }
            let mut es = Vec::new();
            for e in exprs_at(view, l) {
                subexprs(e, &mut es);
            }
            for e in es {
                let mut ss = BTreeSet::new();
                scalars_of(e, &mut ss);
                if !ss.iter().all(|(n, b)| usable(n, *b, &m)) {
                    continue;
                }
                let Ok(want) = refil::eval(e, &m.state.scalars) else { continue };
                let got = match guard(|| c.eval(e)) {
                    Ok(g) => g,
                    Err(pi) => fv::fail!(format!("C13|eval|{}", pi.sig()), "Constants::eval({}) panicked: {} ({}:{})", e, pi.msg, pi.file, pi.line),
                };
                match got {
                    None => st.eval_declined += 1,
                    Some(k) => {
                        st.eval_cmp += 1;
                        if Bv::from_constant(&k) != want {
                            let clean = if ss.iter().any(|(n, _)| tainted.contains(n)) { "value-derived-from-unassigned-scalar" } else { "clean" };
                            fv::fail!(
                                format!("C13|eval|contradicted|{}", clean),
                                "at {:?} ({}) Constants::eval({}) = {} but the expression has the value {} in the state immediately before the location executes",
                                l, loc_kind(l), e, k, want
                            );
                        }
                    }
                }
            }
        } else {
            obs.count("executed-location-without-map-entry", 1);
        }

        // ---- self-check of the definite-assignment data-flow against this execution
        if da {
            if let Some(r) = names_read(view, l) {
                if let Some(n) = r.iter().find(|n| !assigned.contains_key(*n)) {
                    fv::fail!("C13|harness|definite-assignment", "data-flow says definitely assigned, yet {:?} reads {} before the function assigned it", l, n);
                }
            }
        }

        // ---- execute L
        let op = match l {
            Loc::Instr(b, i) => view.instr(b, i).map(|iv| &iv.op),
            _ => None,
        };
        // taint of an assignment is decided on the pre-state
        let src_tainted = match op {
            Some(il::Operation::Assign { src, .. }) => {
                let mut ss = BTreeSet::new();
                scalars_of(src, &mut ss);
                ss.iter().any(|(n, _)| !assigned.contains_key(n) || tainted.contains(n))
            }
            _ => false,
        };
        let undeclared_intrinsic = matches!(op, Some(il::Operation::Intrinsic { intrinsic }) if intrinsic.written_expressions().is_none());
        if undeclared_intrinsic {
            // "assume the intrinsic does anything": every defined scalar gets an oracle-chosen value
            m.events += 1;
            m.last_effect = None;
            m.havoc_defined();
            for n in m.state.scalars.keys() {
                last_write.insert(n.clone(), "intrinsic-undeclared");
            }
            tainted.clear();
            match m.fallthrough() {
                Ok(n) => m.loc = n,
                Err(_) => return Ok(()),
            }
            continue;
        }
        let eff = match m.step() {
            Ok(e) => e,
            Err(_) => return Ok(()), // a fault (or the end of the function) ends the execution
        };
        match eff {
            Effect::Assign { name, value } => {
                assigned.insert(name.clone(), value.w);
                last_write.insert(name.clone(), "assign");
                if src_tainted {
                    tainted.insert(name);
                } else {
                    tainted.remove(&name);
                }
            }
            Effect::Load { name, value, .. } => {
                assigned.insert(name.clone(), value.w);
                last_write.insert(name.clone(), "load");
                tainted.remove(&name);
            }
            Effect::Intrinsic { wrote, .. } => {
                for (name, value) in wrote {
                    assigned.insert(name.clone(), value.w);
                    last_write.insert(name.clone(), "intrinsic");
                    tainted.remove(&name);
                }
            }
            Effect::Branch { .. } => {
                // a call that returns: the callee clobbered every defined scalar (not an
                // assignment by the function itself)
                m.havoc_defined();
                for n in m.state.scalars.keys() {
                    last_write.insert(n.clone(), "call");
                }
                tainted.clear();
                match m.fallthrough() {
                    Ok(n) => m.loc = n,
                    Err(_) => return Ok(()),
                }
            }
            Effect::Store { .. } | Effect::Nop | Effect::Pass => {}
        }
    }
    Ok(())
}

fn check(case: &Case, obs: &mut Obs) -> Result<(), Failure> {
    let function = case.spec.build().map_err(|e| Failure::new("C13|harness|build", e))?;
    let view = FnView::of(&function);
    let reach = reachable_locs(&view);
    let scalars = all_scalars(&view);
    let names: BTreeSet<String> = scalars.iter().map(|s| s.0.clone()).chain(case.pool.scalars.iter().map(|s| s.0.clone())).collect();
    let punned = scalars.iter().any(|(n, b)| scalars.iter().any(|(n2, b2)| n == n2 && b != b2));
    let bad = maybe_unassigned_reads(&view, &reach, &names);
    // a name used at two widths: whether "the scalar" was assigned is not well defined; such
    // functions are never counted as definitely assigned
    let da = bad.is_empty() && !punned;
    if view.blocks.values().any(|is| is.windows(2).any(|w| w[0].index > w[1].index)) {
        obs.class("block-with-indices-not-ascending");
        if da {
            obs.class("definitely-assigned-with-indices-not-ascending");
        }
    }

    // ---- classes
    let reach_blocks = case.spec.reachable_blocks();
    let n_blocks = case.spec.blocks.len();
    let feeds_live = case.spec.edges.iter().any(|e| !reach_blocks.contains(&e.0) && reach_blocks.contains(&e.1));
    let has_unreachable = reach_blocks.len() < n_blocks;
    let cyclic = case.spec.has_cycle();
    let mut opmask = 0u32;
    for l in &reach {
        if let Loc::Instr(b, i) = l {
            opmask |= match view.instr(*b, *i).map(|iv| &iv.op) {
                Some(il::Operation::Assign { .. }) => 1,
                Some(il::Operation::Store { .. }) => 2,
                Some(il::Operation::Load { .. }) => 4,
                Some(il::Operation::Branch { .. }) => 8,
                Some(il::Operation::Intrinsic { intrinsic }) => {
                    if intrinsic.written_expressions().is_none() {
                        32
                    } else {
                        16
                    }
                }
                _ => 0,
            };
        }
    }
    obs.class(match case.mode {
        Mode::Arbitrary => "mode-arbitrary",
        Mode::Repaired => "mode-repaired",
        Mode::Prologue => "mode-prologue",
        Mode::Punned => "mode-punned",
        Mode::Partial => "mode-partial",
    });
    obs.class(if da { "definitely-assigned" } else { "not-definitely-assigned" });
    if punned {
        obs.class("name-at-two-widths");
    }
    if cyclic {
        obs.class("has-loop");
    }
    if has_unreachable {
        obs.class("unreachable-block");
    }
    if feeds_live {
        obs.class("unreachable-feeds-live");
        if da {
            obs.class("unreachable-feeds-live-and-definitely-assigned");
        }
    }
    for (bit, name) in [(4, "has-load"), (8, "has-call"), (16, "has-intrinsic-declared"), (32, "has-intrinsic-undeclared")] {
        if opmask & bit != 0 {
            obs.class(name);
        }
    }
    if matches!(case.mode, Mode::Repaired | Mode::Prologue) && !da && reach_blocks.len() > 0 {
        // never for a generated case (measured: 0); structural shrinking may get here by removing
        // an assignment, which merely moves the case into the other sub-domain
        obs.class("prologue-mode-but-not-definitely-assigned");
    }

    // ---- falcon
    let result = guard(|| constants(&function));
    let map = match result {
        Err(pi) => {
            if da {
                let site = if feeds_live { "unreachable-predecessor" } else { "no-unreachable-predecessor" };
                fv::fail!(
                    format!("C13|constants|panic|{}", site),
                    "constants() panicked on a function in which no scalar can be read before it is assigned: {} ({}:{})",
                    pi.msg, pi.file, pi.line
                );
            }
            obs.class("result-panic-not-definitely-assigned");
            obs.exclude("panic-on-a-function-that-is-not-definitely-assigned");
            return Ok(());
        }
        Ok(Err(e)) => {
            if da {
                let kind = match e {
                    Error::FixedPointOrdering(..) => "ordering",
                    Error::FixedPointMaxSteps => "max-steps",
                    Error::FixedPointRequiresEntry => "requires-entry",
                    _ => "other",
                };
                fv::fail!(
                    format!("C13|constants|err|{}", kind),
                    "constants() returned Err on a function in which no scalar can be read before it is assigned: {}",
                    e
                );
            }
            obs.class("result-err-not-definitely-assigned");
            if obs.want_sample() {
                obs.sample(render(case));
            }
            return Ok(());
        }
        Ok(Ok(m)) => m,
    };
    obs.class(if da { "result-ok-definitely-assigned" } else { "result-ok-not-definitely-assigned" });
    let mut cmap: BTreeMap<Loc, &Constants> = BTreeMap::new();
    for (k, v) in map.iter() {
        cmap.insert(pl_to_loc(k), v);
    }

    // ---- executions
    let mut st = Stats { scalar_cmp: 0, eval_cmp: 0, eval_declined: 0, after_join_or_loop: 0, joins: 0, revisits: 0, steps: 0 };
    for run in &case.runs {
        run_one(&view, &reach, &scalars, &cmap, run, da, &mut st, obs)?;
    }
    obs.count("locations-executed", st.steps);
    obs.count("scalar-comparisons", st.scalar_cmp);
    obs.count("eval-comparisons", st.eval_cmp);
    obs.count("eval-declined", st.eval_declined);
    obs.count("scalar-comparisons-after-join-or-loop", st.after_join_or_loop);
    if st.joins > 0 {
        obs.class("executed-a-join");
    }
    if st.revisits > 0 {
        obs.class("executed-a-loop-iteration");
    }
    if st.eval_cmp > 0 {
        obs.class("eval-compared");
    }
    if st.after_join_or_loop > 0 {
        obs.class("nontrivial");
        obs.nontrivial(&(case.mode, n_blocks.min(9), cyclic, feeds_live, opmask, st.joins.min(3), st.revisits.min(3), st.after_join_or_loop.min(6)));
    }
    if obs.want_sample() {
        obs.sample(render(case));
    }
    Ok(())
}

fn render(c: &Case) -> String {
    let mut s = format!("mode {:?}; pool {:?}\n{}", c.mode, c.pool.scalars, c.spec.render());
    for (i, r) in c.runs.iter().enumerate() {
        s.push_str(&format!(
            " run {}: havoc seed 0x{:x}, {} endian, initial scalars {:?}\n",
            i, r.havoc_seed, if r.init.mem.big_endian { "big" } else { "little" }, r.init.scalars
        ));
    }
    s
}

fn simplify(c: &Case) -> Vec<Case> {
    let mut v = Vec::new();
    if c.runs.len() > 1 {
        for i in 0..c.runs.len() {
            let mut d = c.clone();
            d.runs.remove(i);
            v.push(d);
        }
    }
    let n = c.spec.blocks.len();
    // drop a whole block (with its edges), renumbering the ones behind it
    for b in (0..n).rev() {
        if n > 1 && c.spec.entry != Some(b) {
            let mut d = c.clone();
            d.spec.blocks.remove(b);
            d.spec.edges.retain(|e| e.0 != b && e.1 != b);
            let fix = |x: usize| if x > b { x - 1 } else { x };
            for e in d.spec.edges.iter_mut() {
                e.0 = fix(e.0);
                e.1 = fix(e.1);
            }
            d.spec.entry = d.spec.entry.map(fix);
            d.spec.exit = match d.spec.exit {
                Some(x) if x == b => None,
                other => other.map(fix),
            };
            v.push(d);
        }
    }
    for b in 0..n {
        for i in 0..c.spec.blocks[b].len() {
            let mut d = c.clone();
            d.spec.blocks[b].remove(i);
            v.push(d);
        }
    }
    for i in 0..c.spec.edges.len() {
        let mut d = c.clone();
        d.spec.edges.remove(i);
        v.push(d);
    }
    // make a guard trivial
    for i in 0..c.spec.edges.len() {
        if c.spec.edges[i].2.is_some() && c.spec.edges.iter().filter(|e| e.0 == c.spec.edges[i].0).count() == 1 {
            let mut d = c.clone();
            d.spec.edges[i].2 = None;
            v.push(d);
        }
    }
    // forget the memory image of a run (only loads care)
    for i in 0..c.runs.len() {
        if c.runs[i].havoc_seed != 0 {
            let mut d = c.clone();
            d.runs[i].havoc_seed = 0;
            v.push(d);
        }
    }
    v
}

/// libFuzzer entry: the input bytes are the entropy tape (little-endian u32 words); same
/// generator, same oracle as the proptest tiers.
#[allow(dead_code)]
pub fn fuzz_bytes(data: &[u8]) {
    let tape = fv::tape::words_from_bytes(data, 1600);
    let case = decode(&mut Tape::new(&tape));
    engine::fuzz_one("C13", &case, &render, &check);
}

#[allow(dead_code)]
fn main() -> std::process::ExitCode {
    let mut spec = Spec::new(
        "C13",
        "IL functions from gen_fn (2-9 blocks, 1-4 ops, constants, arithmetic, branches assigning different constants, loop-carried updates, loads/stores, intrinsics with declared and undeclared effects, calls; optional blocks unreachable from the entry that feed live ones) in four modes (arbitrary / minimal prologue for may-be-unassigned scalars / full prologue / one name at two widths) x 1-3 reference executions (Branch = returning call with havoc); definite assignment decided by an own must-assigned data-flow; constants() must be Ok on definitely-assigned functions; on every Ok the map entry of each executed location and Constants::eval of every (sub-)expression occurring there are compared with the reference state immediately before the location, restricted to scalars the function itself assigned in that execution; non-trivial = a reported constant was compared at a location reached after >= 1 join or >= 1 loop iteration; distinct = (mode, #blocks, cyclic, unreachable-feeds-live, operation kinds present, capped joins / iterations / comparisons)",
        Box::new(|_t: Tier| from_tape(1600, decode)),
        |t| t.pick(200_000, 6_000_000),
        check,
    );
    spec.render = render;
    spec.simplify = Some(simplify);
    spec.case_timeout_s = 120;
    spec.crash_sig = |_c: &Case| "C13|constants|crash".to_string();
    spec.assumptions = vec![
        "a Branch with a fall-through location is a call that returns with every currently defined scalar clobbered (memory untouched); the clobbering is not an assignment by the function itself (DESIGN 1.8)".into(),
        "an intrinsic assigns its declared written scalars arbitrary values (this counts as an assignment by the function); an intrinsic whose written expressions are undeclared clobbers every defined scalar ('assume the intrinsic does anything', il/intrinsic.rs)".into(),
        "the domain of the completion clause is decided by a must-assigned data-flow over the locations reachable from the entry (instructions, edges with their guards, empty blocks); definitions = Assign/Load destinations (declared intrinsic writes are not counted, which only shrinks the domain); an intrinsic with undeclared reads is taken to read every scalar; unreachable blocks never execute and therefore do not read".into(),
        "every scalar name has one width (what every lifter guarantees) except in mode Punned; there a scalar (name, w) counts as assigned only while the most recent assignment to the name had width w, executions stop at the first ill-sorted read, and such functions are never in the completion domain".into(),
        "an execution ends at the first reference fault (unmapped address, division by zero, no enabled edge = function exit) or after 160 locations; only the locations executed before that are compared".into(),
        "a panic or Err of constants() on a function that is not definitely assigned is outside the property and only counted".into(),
    ];
    spec.floors = vec![
        ("block-with-indices-not-ascending", 0.015),
        ("definitely-assigned", 0.40),
        ("not-definitely-assigned", 0.10),
        ("result-ok-definitely-assigned", 0.30),
        ("result-ok-not-definitely-assigned", 0.02),
        ("unreachable-feeds-live", 0.05),
        ("has-loop", 0.30),
        ("has-load", 0.20),
        ("has-call", 0.08),
        ("has-intrinsic-declared", 0.05),
        ("has-intrinsic-undeclared", 0.04),
        ("executed-a-join", 0.30),
        ("executed-a-loop-iteration", 0.20),
        ("eval-compared", 0.30),
        ("nontrivial", 0.25),
    ];
    engine::main(spec)
}
