//! probe <translator> <hex bytes> [address]: print what translate_block returns (debug aid)
use falcon::translator::{self, Options, Translator};
fn main() {
    let mut a: Vec<String> = std::env::args().collect();
    let func = a[1].starts_with("fn:");
    if func {
        a[1] = a[1][3..].to_string();
    }
    let tr: Box<dyn Translator> = match a[1].as_str() {
        "x86" => Box::new(translator::x86::X86::new()),
        "amd64" => Box::new(translator::x86::Amd64::new()),
        "mips" => Box::new(translator::mips::Mips::new()),
        "mipsel" => Box::new(translator::mips::Mipsel::new()),
        "ppc" => Box::new(translator::ppc::Ppc::new()),
        "aarch64" => Box::new(translator::aarch64::AArch64::new()),
        _ => Box::new(translator::aarch64::AArch64Eb::new()),
    };
    let hex: String = a[2].chars().filter(|c| c.is_ascii_hexdigit()).collect();
    let bytes: Vec<u8> = (0..hex.len() / 2).map(|i| u8::from_str_radix(&hex[2 * i..2 * i + 2], 16).unwrap()).collect();
    let addr = a.get(3).map(|s| u64::from_str_radix(s.trim_start_matches("0x"), 16).unwrap()).unwrap_or(0x1000);
    if func {
        let big = matches!(a[1].as_str(), "mips" | "ppc" | "aarch64eb");
        let mut mem = falcon::memory::backing::Memory::new(if big { falcon::architecture::Endian::Big } else { falcon::architecture::Endian::Little });
        mem.set_memory(addr, bytes.clone(), falcon::memory::MemoryPermissions::READ | falcon::memory::MemoryPermissions::EXECUTE);
        match tr.translate_function(&mem, addr) {
            Ok(f) => println!("{}", f.control_flow_graph()),
            Err(e) => println!("Err: {}", e),
        }
        return;
    }
    match tr.translate_block(&bytes, addr, &Options::default()) {
        Ok(r) => {
            for (a, g) in r.instructions() {
                println!("@0x{:x} entry={:?} exit={:?}\n{}", a, g.entry(), g.exit(), g);
            }
            for (a, c) in r.successors() {
                println!("successor 0x{:x} if {}", a, c.as_ref().map(|c| c.to_string()).unwrap_or("-".into()));
            }
        }
        Err(e) => println!("Err: {}", e),
    }
}
// (see probe_fn below: `probe fn:<translator> <hex> [address]` prints translate_function's result)
