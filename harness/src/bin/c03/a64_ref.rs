//! Reference A64 decoder / interpreter for the instruction classes named by property C03.
//!
//! Written from the Arm ARM (DDI 0487) encoding tables and the shared pseudocode functions
//! `AddWithCarry`, `ExtendReg`, `ShiftReg`, `DecodeBitMasks`, `ConditionHolds`, `Mem[]`.
//! It decodes the raw 32-bit word itself; it never calls bad64, capstone or falcon.
//!
//! State: X0-X30, SP, NZCV, V0-V31 (only as load/store data), a byte-map memory with a data
//! endianness, pc.  Register number 31 is SP or ZR per encoding class; W writes clear bits
//! 63:32.  Outcomes the architecture leaves open (CONSTRAINED UNPREDICTABLE, SP alignment
//! checking, which depends on SCTLR_ELx.SA) are reported as `Stop` values, never guessed.
//!
//! Reuse: `#[path = "../c03/a64_ref.rs"] mod a64_ref;` — the module has no dependency besides
//! `std`.

#![allow(dead_code)]

use std::collections::BTreeMap;
use std::fmt;

// ---------------------------------------------------------------------------------------------
// decoded instructions

#[derive(Clone, Copy, Debug, PartialEq, Eq, Hash)]
pub enum Shift {
    Lsl,
    Lsr,
    Asr,
    Ror,
}

impl Shift {
    pub fn name(self) -> &'static str {
        match self {
            Shift::Lsl => "lsl",
            Shift::Lsr => "lsr",
            Shift::Asr => "asr",
            Shift::Ror => "ror",
        }
    }
}

#[derive(Clone, Copy, Debug, PartialEq, Eq, Hash)]
pub enum MemOp {
    Load,
    Store,
    Prefetch,
}

/// Addressing mode of a load/store (offsets are already scaled to bytes).
#[derive(Clone, Copy, Debug, PartialEq, Eq, Hash)]
pub enum Addr {
    /// `[Xn|SP]` (load-acquire / store-release forms)
    Base,
    /// `[Xn|SP, #pimm]` unsigned scaled offset
    UImm(u64),
    /// `[Xn|SP, #simm]` signed offset, no write-back (LDUR/STUR, pair signed offset)
    Off(i64),
    /// `[Xn|SP, #simm]!`
    Pre(i64),
    /// `[Xn|SP], #simm`
    Post(i64),
    /// `[Xn|SP, Rm, <extend> #amount]`
    Reg { rm: u8, option: u8, amount: u8 },
    /// pc-relative literal
    Literal(i64),
}

impl Addr {
    pub fn mode(&self) -> &'static str {
        match self {
            Addr::Base => "base",
            Addr::UImm(_) => "uimm",
            Addr::Off(_) => "offset",
            Addr::Pre(_) => "pre",
            Addr::Post(_) => "post",
            Addr::Reg { .. } => "regoff",
            Addr::Literal(_) => "literal",
        }
    }
    pub fn writeback(&self) -> bool {
        matches!(self, Addr::Pre(_) | Addr::Post(_))
    }
}

#[derive(Clone, Copy, Debug, PartialEq, Eq, Hash)]
pub enum BReg {
    Br,
    Blr,
    Ret,
}

#[derive(Clone, Copy, Debug, PartialEq, Eq, Hash)]
pub enum Insn {
    AddSubImm { sf: bool, sub: bool, setflags: bool, sh: bool, imm12: u16, rn: u8, rd: u8 },
    AddSubShifted { sf: bool, sub: bool, setflags: bool, shift: Shift, amount: u8, rm: u8, rn: u8, rd: u8 },
    AddSubExt { sf: bool, sub: bool, setflags: bool, option: u8, amount: u8, rm: u8, rn: u8, rd: u8 },
    /// opc: 0 MOVN, 2 MOVZ, 3 MOVK
    MovWide { sf: bool, opc: u8, hw: u8, imm16: u16, rd: u8 },
    /// ORR / ORN (shifted register); `mov Rd, Rm` is ORR with Rn = ZR, LSL #0
    OrrShifted { sf: bool, invert: bool, shift: Shift, amount: u8, rm: u8, rn: u8, rd: u8 },
    /// ORR (immediate); `mov Rd|SP, #bitmask` is ORR with Rn = ZR
    OrrImm { sf: bool, imm: u64, rn: u8, rd: u8 },
    /// single-register load / store / prefetch.  `bytes` is the access size, `regsize` the
    /// destination width (32/64) for integer loads, `simd` selects the V register file.
    LdSt { op: MemOp, bytes: u8, signed: bool, regsize: u8, simd: bool, addr: Addr, rn: u8, rt: u8, mnemonic: &'static str },
    Pair { load: bool, bytes: u8, signed: bool, simd: bool, addr: Addr, nontemporal: bool, rn: u8, rt: u8, rt2: u8 },
    B { link: bool, off: i64 },
    BCond { cond: u8, off: i64 },
    Cbz { sf: bool, nonzero: bool, off: i64, rt: u8 },
    Tbz { bit: u8, nonzero: bool, off: i64, rt: u8 },
    BReg { kind: BReg, rn: u8 },
    Nop,
}

#[derive(Clone, Copy, Debug, PartialEq, Eq)]
pub enum Decoded {
    Insn(Insn),
    /// the word lies in one of the modelled encoding groups but is UNDEFINED / unallocated
    Undefined(&'static str),
    /// allocated, but CONSTRAINED UNPREDICTABLE whatever the state (should-be-one field violated)
    Unpredictable(&'static str),
    /// outside the groups this model covers
    Unmodelled,
}

fn bits(w: u32, hi: u32, lo: u32) -> u32 {
    (w >> lo) & ((1u32 << (hi - lo + 1)) - 1)
}

fn sext(v: u64, bits_: u32) -> i64 {
    let sh = 64 - bits_;
    ((v << sh) as i64) >> sh
}

fn ones(n: u32) -> u64 {
    if n >= 64 {
        u64::MAX
    } else {
        (1u64 << n) - 1
    }
}

/// `DecodeBitMasks(immN, imms, immr, TRUE)` — the `wmask` result, `None` when UNDEFINED.
pub fn decode_bit_masks(n: u32, imms: u32, immr: u32, datasize: u32) -> Option<u64> {
    // len = HighestSetBit(immN : NOT(imms))
    let v = (n << 6) | (!imms & 0x3f);
    if v == 0 {
        return None;
    }
    let len = 31 - v.leading_zeros();
    if len < 1 {
        return None;
    }
    if datasize < (1 << len) {
        return None;
    }
    let levels = (1u32 << len) - 1;
    if imms & levels == levels {
        return None;
    }
    let s = imms & levels;
    let r = immr & levels;
    let esize = 1u32 << len;
    let welem = ones(s + 1);
    // ROR(welem, r) within esize bits
    let rot = if r == 0 {
        welem
    } else {
        ((welem >> r) | (welem << (esize - r))) & ones(esize)
    };
    let mut out = 0u64;
    let mut i = 0;
    while i < datasize {
        out |= rot << i;
        i += esize;
    }
    Some(out & ones(datasize))
}

pub fn decode(w: u32) -> Decoded {
    use Decoded::*;
    let rd = bits(w, 4, 0) as u8;
    let rn = bits(w, 9, 5) as u8;
    let sf = bits(w, 31, 31) == 1;

    // ---- data processing (immediate): bits 28:26 = 100
    if bits(w, 28, 26) == 0b100 {
        match bits(w, 25, 23) {
            0b010 => {
                // add/subtract (immediate)
                return Insn(self::Insn::AddSubImm {
                    sf,
                    sub: bits(w, 30, 30) == 1,
                    setflags: bits(w, 29, 29) == 1,
                    sh: bits(w, 22, 22) == 1,
                    imm12: bits(w, 21, 10) as u16,
                    rn,
                    rd,
                });
            }
            0b100 => {
                // logical (immediate)
                let opc = bits(w, 30, 29);
                let n = bits(w, 22, 22);
                if !sf && n == 1 {
                    return Undefined("logical-imm sf=0 N=1");
                }
                if opc != 0b01 {
                    return Unmodelled;
                }
                return match decode_bit_masks(n, bits(w, 15, 10), bits(w, 21, 16), if sf { 64 } else { 32 }) {
                    Some(imm) => Insn(self::Insn::OrrImm { sf, imm, rn, rd }),
                    None => Undefined("logical-imm reserved bitmask"),
                };
            }
            0b101 => {
                // move wide (immediate)
                let opc = bits(w, 30, 29) as u8;
                let hw = bits(w, 22, 21) as u8;
                if opc == 0b01 {
                    return Undefined("move-wide opc=01");
                }
                if !sf && hw >= 2 {
                    return Undefined("move-wide sf=0 hw<1>=1");
                }
                return Insn(self::Insn::MovWide { sf, opc, hw, imm16: bits(w, 20, 5) as u16, rd });
            }
            _ => return Unmodelled,
        }
    }

    // ---- data processing (register): add/sub shifted / extended, logical shifted
    if bits(w, 28, 24) == 0b01011 {
        let sub = bits(w, 30, 30) == 1;
        let setflags = bits(w, 29, 29) == 1;
        let rm = bits(w, 20, 16) as u8;
        if bits(w, 21, 21) == 0 {
            let shift = match bits(w, 23, 22) {
                0 => Shift::Lsl,
                1 => Shift::Lsr,
                2 => Shift::Asr,
                _ => return Undefined("add/sub shifted shift=11"),
            };
            let imm6 = bits(w, 15, 10) as u8;
            if !sf && imm6 >= 32 {
                return Undefined("add/sub shifted sf=0 imm6<5>=1");
            }
            return Insn(self::Insn::AddSubShifted { sf, sub, setflags, shift, amount: imm6, rm, rn, rd });
        } else {
            if bits(w, 23, 22) != 0 {
                return Undefined("add/sub extended opt!=00");
            }
            let imm3 = bits(w, 12, 10) as u8;
            if imm3 > 4 {
                return Undefined("add/sub extended imm3>4");
            }
            return Insn(self::Insn::AddSubExt { sf, sub, setflags, option: bits(w, 15, 13) as u8, amount: imm3, rm, rn, rd });
        }
    }
    if bits(w, 28, 24) == 0b01010 {
        let opc = bits(w, 30, 29);
        let imm6 = bits(w, 15, 10) as u8;
        if !sf && imm6 >= 32 {
            return Undefined("logical shifted sf=0 imm6<5>=1");
        }
        if opc != 0b01 {
            return Unmodelled;
        }
        let shift = match bits(w, 23, 22) {
            0 => Shift::Lsl,
            1 => Shift::Lsr,
            2 => Shift::Asr,
            _ => Shift::Ror,
        };
        return Insn(self::Insn::OrrShifted {
            sf,
            invert: bits(w, 21, 21) == 1,
            shift,
            amount: imm6,
            rm: bits(w, 20, 16) as u8,
            rn,
            rd,
        });
    }

    // ---- branches, exception generation, system: bits 28:26 = 101
    if bits(w, 28, 26) == 0b101 {
        if bits(w, 30, 29) == 0b00 {
            // B / BL
            let off = sext(bits(w, 25, 0) as u64, 26) << 2;
            return Insn(self::Insn::B { link: bits(w, 31, 31) == 1, off });
        }
        if bits(w, 30, 25) == 0b011010 {
            let off = sext(bits(w, 23, 5) as u64, 19) << 2;
            return Insn(self::Insn::Cbz { sf, nonzero: bits(w, 24, 24) == 1, off, rt: rd });
        }
        if bits(w, 30, 25) == 0b011011 {
            let off = sext(bits(w, 18, 5) as u64, 14) << 2;
            let bit = ((bits(w, 31, 31) << 5) | bits(w, 23, 19)) as u8;
            return Insn(self::Insn::Tbz { bit, nonzero: bits(w, 24, 24) == 1, off, rt: rd });
        }
        if bits(w, 31, 25) == 0b0101010 {
            if bits(w, 24, 24) != 0 {
                return Undefined("cond-branch o1=1");
            }
            if bits(w, 4, 4) != 0 {
                // BC.cond (FEAT_HBC): a hinted B.cond, not modelled
                return Unmodelled;
            }
            let off = sext(bits(w, 23, 5) as u64, 19) << 2;
            return Insn(self::Insn::BCond { cond: bits(w, 3, 0) as u8, off });
        }
        if bits(w, 31, 25) == 0b1101011 {
            // unconditional branch (register)
            let opc = bits(w, 24, 21);
            let op2 = bits(w, 20, 16);
            let op3 = bits(w, 15, 10);
            let op4 = bits(w, 4, 0);
            if op2 != 0b11111 {
                return Undefined("branch-reg op2!=11111");
            }
            if op3 == 0 && op4 == 0 {
                let kind = match opc {
                    0 => BReg::Br,
                    1 => BReg::Blr,
                    2 => BReg::Ret,
                    _ => return Unmodelled,
                };
                return Insn(self::Insn::BReg { kind, rn });
            }
            return Unmodelled;
        }
        if w == 0xd503201f {
            return Insn(self::Insn::Nop);
        }
        return Unmodelled;
    }

    // ---- loads and stores: bit 27 = 1, bit 25 = 0
    if bits(w, 27, 27) == 1 && bits(w, 25, 25) == 0 {
        let rt = rd;
        let v = bits(w, 26, 26) == 1;
        let size = bits(w, 31, 30);
        match bits(w, 29, 28) {
            0b00 => {
                // load/store exclusive / ordered: size 001000 o2 L o1 Rs o0 Rt2 Rn Rt
                if v || bits(w, 24, 24) != 0 {
                    return Unmodelled;
                }
                let o2 = bits(w, 23, 23);
                let l = bits(w, 22, 22);
                let o1 = bits(w, 21, 21);
                if o2 == 1 && o1 == 0 {
                    let o0 = bits(w, 15, 15);
                    let mnemonic: &'static str = match (l, o0, size) {
                        (0, 1, 0) => "stlrb",
                        (0, 1, 1) => "stlrh",
                        (0, 1, _) => "stlr",
                        (1, 1, 0) => "ldarb",
                        (1, 1, 1) => "ldarh",
                        (1, 1, _) => "ldar",
                        (0, 0, 0) => "stllrb",
                        (0, 0, 1) => "stllrh",
                        (0, 0, _) => "stllr",
                        (_, _, 0) => "ldlarb",
                        (_, _, 1) => "ldlarh",
                        _ => "ldlar",
                    };
                    // Rs (20:16) and Rt2 (14:10) are should-be-one fields
                    if bits(w, 20, 16) != 31 || bits(w, 14, 10) != 31 {
                        return Unpredictable("ordered load/store with an SBO field != 11111");
                    }
                    return Insn(self::Insn::LdSt {
                        op: if l == 1 { MemOp::Load } else { MemOp::Store },
                        bytes: 1 << size,
                        signed: false,
                        regsize: if size == 3 { 64 } else { 32 },
                        simd: false,
                        addr: Addr::Base,
                        rn,
                        rt,
                        mnemonic,
                    });
                }
                return Unmodelled;
            }
            0b01 => {
                if bits(w, 24, 24) == 0 {
                    // load register (literal): opc 011 V 00 imm19 Rt
                    let opc = size;
                    let off = sext(bits(w, 23, 5) as u64, 19) << 2;
                    let (op, bytes, signed, regsize, mnemonic): (MemOp, u8, bool, u8, &'static str) = match (v, opc) {
                        (false, 0) => (MemOp::Load, 4, false, 32, "ldr"),
                        (false, 1) => (MemOp::Load, 8, false, 64, "ldr"),
                        (false, 2) => (MemOp::Load, 4, true, 64, "ldrsw"),
                        (false, _) => (MemOp::Prefetch, 8, false, 64, "prfm"),
                        (true, 0) => (MemOp::Load, 4, false, 32, "ldr"),
                        (true, 1) => (MemOp::Load, 8, false, 64, "ldr"),
                        (true, 2) => (MemOp::Load, 16, false, 128, "ldr"),
                        (true, _) => return Undefined("ldr literal simd opc=11"),
                    };
                    return Insn(self::Insn::LdSt { op, bytes, signed, regsize, simd: v, addr: Addr::Literal(off), rn: 31, rt, mnemonic });
                }
                // LDAPUR / STLUR: size 011001 opc 0 imm9 00 Rn Rt
                if !v && bits(w, 21, 21) == 0 && bits(w, 11, 10) == 0 {
                    let opc = bits(w, 23, 22);
                    let imm9 = sext(bits(w, 20, 12) as u64, 9);
                    let (op, signed, regsize): (MemOp, bool, u8) = match opc {
                        0 => (MemOp::Store, false, if size == 3 { 64 } else { 32 }),
                        1 => (MemOp::Load, false, if size == 3 { 64 } else { 32 }),
                        2 => {
                            if size == 3 {
                                return Undefined("ldapurs size=11");
                            }
                            (MemOp::Load, true, 64)
                        }
                        _ => {
                            if size >= 2 {
                                return Undefined("ldapurs 32-bit size>=10");
                            }
                            (MemOp::Load, true, 32)
                        }
                    };
                    let mnemonic: &'static str = match (opc, size) {
                        (0, 0) => "stlurb",
                        (0, 1) => "stlurh",
                        (0, _) => "stlur",
                        (1, 0) => "ldapurb",
                        (1, 1) => "ldapurh",
                        (1, _) => "ldapur",
                        (_, 0) => "ldapursb",
                        (_, 1) => "ldapursh",
                        _ => "ldapursw",
                    };
                    return Insn(self::Insn::LdSt { op, bytes: 1 << size, signed, regsize, simd: false, addr: Addr::Off(imm9), rn, rt, mnemonic });
                }
                return Unmodelled;
            }
            0b10 => {
                // load/store pair: opc 101 V type L imm7 Rt2 Rn Rt
                let opc = size;
                let typ = bits(w, 25, 23);
                // bit 25 is 0 here, so typ is 000..011
                let l = bits(w, 22, 22);
                let rt2 = bits(w, 14, 10) as u8;
                let imm7 = sext(bits(w, 21, 15) as u64, 7);
                let (bytes, signed): (u8, bool) = if v {
                    if opc == 3 {
                        return Undefined("pair simd opc=11");
                    }
                    (4 << opc, false)
                } else {
                    if opc == 3 {
                        return Undefined("pair opc=11");
                    }
                    if opc == 1 {
                        if l == 0 {
                            // STGP (FEAT_MTE) or unallocated
                            return Unmodelled;
                        }
                        if typ == 0 {
                            return Undefined("ldnp opc=01");
                        }
                        (4, true)
                    } else {
                        (if opc == 2 { 8 } else { 4 }, false)
                    }
                };
                let off = imm7 * bytes as i64;
                let addr = match typ {
                    0 => Addr::Off(off),
                    1 => Addr::Post(off),
                    2 => Addr::Off(off),
                    _ => Addr::Pre(off),
                };
                return Insn(self::Insn::Pair { load: l == 1, bytes, signed, simd: v, addr, nontemporal: typ == 0, rn, rt, rt2 });
            }
            _ => {
                // load/store register: size 111 V xx opc ...
                let opc = bits(w, 23, 22);
                // decode size/opc into the operation (shared by all single-register forms)
                let (op, bytes, signed, regsize): (MemOp, u8, bool, u8) = if v {
                    let scale = ((opc >> 1) << 2) | size;
                    if scale > 4 {
                        return Undefined("ldst simd scale>4");
                    }
                    (if opc & 1 == 1 { MemOp::Load } else { MemOp::Store }, 1 << scale, false, 128)
                } else if opc >> 1 == 0 {
                    (if opc & 1 == 1 { MemOp::Load } else { MemOp::Store }, 1 << size, false, if size == 3 { 64 } else { 32 })
                } else if size == 3 {
                    if opc & 1 == 1 {
                        return Undefined("ldst size=11 opc=11");
                    }
                    (MemOp::Prefetch, 8, false, 64)
                } else {
                    if size == 2 && opc & 1 == 1 {
                        return Undefined("ldst size=10 opc=11");
                    }
                    (MemOp::Load, 1 << size, true, if opc & 1 == 1 { 32 } else { 64 })
                };
                let base: &'static str = match (op, bytes, signed) {
                    (MemOp::Prefetch, _, _) => "prfm",
                    (MemOp::Store, 1, _) if !v => "strb",
                    (MemOp::Store, 2, _) if !v => "strh",
                    (MemOp::Store, _, _) => "str",
                    (MemOp::Load, 1, false) if !v => "ldrb",
                    (MemOp::Load, 2, false) if !v => "ldrh",
                    (MemOp::Load, 1, true) => "ldrsb",
                    (MemOp::Load, 2, true) => "ldrsh",
                    (MemOp::Load, 4, true) => "ldrsw",
                    (MemOp::Load, _, _) => "ldr",
                };
                if bits(w, 24, 24) == 1 {
                    // unsigned immediate
                    let imm = bits(w, 21, 10) as u64 * bytes as u64;
                    return Insn(self::Insn::LdSt { op, bytes, signed, regsize, simd: v, addr: Addr::UImm(imm), rn, rt, mnemonic: base });
                }
                if bits(w, 21, 21) == 0 {
                    let imm9 = sext(bits(w, 20, 12) as u64, 9);
                    let (addr, mnemonic): (Addr, &'static str) = match bits(w, 11, 10) {
                        0b00 => (
                            Addr::Off(imm9),
                            match base {
                                "prfm" => "prfum",
                                "strb" => "sturb",
                                "strh" => "sturh",
                                "str" => "stur",
                                "ldrb" => "ldurb",
                                "ldrh" => "ldurh",
                                "ldrsb" => "ldursb",
                                "ldrsh" => "ldursh",
                                "ldrsw" => "ldursw",
                                _ => "ldur",
                            },
                        ),
                        0b01 => (Addr::Post(imm9), base),
                        0b11 => (Addr::Pre(imm9), base),
                        _ => return Unmodelled, // unprivileged LDTR/STTR
                    };
                    if op == MemOp::Prefetch && addr.writeback() {
                        return Undefined("prefetch with write-back");
                    }
                    return Insn(self::Insn::LdSt { op, bytes, signed, regsize, simd: v, addr, rn, rt, mnemonic });
                }
                if bits(w, 11, 10) == 0b10 {
                    // register offset
                    let option = bits(w, 15, 13) as u8;
                    if option & 2 == 0 {
                        return Undefined("ldst regoff option<1>=0");
                    }
                    let s = bits(w, 12, 12);
                    let scale = bytes.trailing_zeros() as u8;
                    let amount = if s == 1 { scale } else { 0 };
                    return Insn(self::Insn::LdSt {
                        op,
                        bytes,
                        signed,
                        regsize,
                        simd: v,
                        addr: Addr::Reg { rm: bits(w, 20, 16) as u8, option, amount },
                        rn,
                        rt,
                        mnemonic: base,
                    });
                }
                return Unmodelled; // atomics, pointer-authenticated loads
            }
        }
    }
    Unmodelled
}

// ---------------------------------------------------------------------------------------------
// rendering (for replay files; not used by the oracle)

fn rname(r: u8, sf: bool, sp: bool) -> String {
    match (r, sf, sp) {
        (31, true, true) => "sp".into(),
        (31, false, true) => "wsp".into(),
        (31, true, false) => "xzr".into(),
        (31, false, false) => "wzr".into(),
        (r, true, _) => format!("x{}", r),
        (r, false, _) => format!("w{}", r),
    }
}

pub const EXTEND_NAMES: [&str; 8] = ["uxtb", "uxth", "uxtw", "uxtx", "sxtb", "sxth", "sxtw", "sxtx"];
pub const COND_NAMES: [&str; 16] = ["eq", "ne", "cs", "cc", "mi", "pl", "vs", "vc", "hi", "ls", "ge", "lt", "gt", "le", "al", "nv"];

impl fmt::Display for Insn {
    fn fmt(&self, f: &mut fmt::Formatter) -> fmt::Result {
        match *self {
            Insn::AddSubImm { sf, sub, setflags, sh, imm12, rn, rd } => write!(
                f,
                "{}{} {}, {}, #0x{:x}{}",
                if sub { "sub" } else { "add" },
                if setflags { "s" } else { "" },
                rname(rd, sf, !setflags),
                rname(rn, sf, true),
                imm12,
                if sh { ", lsl #12" } else { "" }
            ),
            Insn::AddSubShifted { sf, sub, setflags, shift, amount, rm, rn, rd } => write!(
                f,
                "{}{} {}, {}, {}, {} #{}",
                if sub { "sub" } else { "add" },
                if setflags { "s" } else { "" },
                rname(rd, sf, false),
                rname(rn, sf, false),
                rname(rm, sf, false),
                shift.name(),
                amount
            ),
            Insn::AddSubExt { sf, sub, setflags, option, amount, rm, rn, rd } => write!(
                f,
                "{}{} {}, {}, {}, {} #{}",
                if sub { "sub" } else { "add" },
                if setflags { "s" } else { "" },
                rname(rd, sf, !setflags),
                rname(rn, sf, true),
                rname(rm, sf && option & 3 == 3, false),
                EXTEND_NAMES[option as usize],
                amount
            ),
            Insn::MovWide { sf, opc, hw, imm16, rd } => write!(
                f,
                "{} {}, #0x{:x}, lsl #{}",
                ["movn", "?", "movz", "movk"][opc as usize],
                rname(rd, sf, false),
                imm16,
                hw * 16
            ),
            Insn::OrrShifted { sf, invert, shift, amount, rm, rn, rd } => write!(
                f,
                "{} {}, {}, {}, {} #{}",
                if invert { "orn" } else { "orr" },
                rname(rd, sf, false),
                rname(rn, sf, false),
                rname(rm, sf, false),
                shift.name(),
                amount
            ),
            Insn::OrrImm { sf, imm, rn, rd } => write!(f, "orr {}, {}, #0x{:x}", rname(rd, sf, true), rname(rn, sf, false), imm),
            Insn::LdSt { op, bytes, regsize, simd, addr, rn, rt, mnemonic, .. } => {
                let t = if op == MemOp::Prefetch {
                    format!("#{}", rt)
                } else if simd {
                    format!("{}{}", ["b", "h", "s", "d", "q"][bytes.trailing_zeros() as usize], rt)
                } else {
                    rname(rt, regsize == 64, false)
                };
                write!(f, "{} {}, {}", mnemonic, t, fmt_addr(addr, rn))
            }
            Insn::Pair { load, bytes, signed, simd, addr, nontemporal, rn, rt, rt2 } => {
                let m = match (load, signed, nontemporal) {
                    (true, true, _) => "ldpsw",
                    (true, _, true) => "ldnp",
                    (true, _, false) => "ldp",
                    (false, _, true) => "stnp",
                    (false, _, false) => "stp",
                };
                let r = |r: u8| {
                    if simd {
                        format!("{}{}", ["b", "h", "s", "d", "q"][bytes.trailing_zeros() as usize], r)
                    } else {
                        rname(r, bytes == 8 || signed, false)
                    }
                };
                write!(f, "{} {}, {}, {}", m, r(rt), r(rt2), fmt_addr(addr, rn))
            }
            Insn::B { link, off } => write!(f, "{} pc{:+#x}", if link { "bl" } else { "b" }, off),
            Insn::BCond { cond, off } => write!(f, "b.{} pc{:+#x}", COND_NAMES[cond as usize], off),
            Insn::Cbz { sf, nonzero, off, rt } => write!(f, "{} {}, pc{:+#x}", if nonzero { "cbnz" } else { "cbz" }, rname(rt, sf, false), off),
            Insn::Tbz { bit, nonzero, off, rt } => write!(f, "{} {}, #{}, pc{:+#x}", if nonzero { "tbnz" } else { "tbz" }, rname(rt, bit >= 32, false), bit, off),
            Insn::BReg { kind, rn } => write!(f, "{} {}", ["br", "blr", "ret"][kind as usize], rname(rn, true, false)),
            Insn::Nop => write!(f, "nop"),
        }
    }
}

fn fmt_addr(a: Addr, rn: u8) -> String {
    let b = rname(rn, true, true);
    match a {
        Addr::Base => format!("[{}]", b),
        Addr::UImm(i) => format!("[{}, #{}]", b, i),
        Addr::Off(i) => format!("[{}, #{}]", b, i),
        Addr::Pre(i) => format!("[{}, #{}]!", b, i),
        Addr::Post(i) => format!("[{}], #{}", b, i),
        Addr::Reg { rm, option, amount } => format!("[{}, {}, {} #{}]", b, rname(rm, option & 1 == 1, false), EXTEND_NAMES[option as usize], amount),
        Addr::Literal(o) => format!("pc{:+#x}", o),
    }
}

impl Insn {
    /// mnemonic as the Arm ARM names the base instruction (aliases are not applied)
    pub fn mnemonic(&self) -> &'static str {
        match *self {
            Insn::AddSubImm { sub, setflags, .. } | Insn::AddSubShifted { sub, setflags, .. } | Insn::AddSubExt { sub, setflags, .. } => match (sub, setflags) {
                (false, false) => "add",
                (false, true) => "adds",
                (true, false) => "sub",
                (true, true) => "subs",
            },
            Insn::MovWide { opc, .. } => ["movn", "?", "movz", "movk"][opc as usize],
            Insn::OrrShifted { invert, .. } => {
                if invert {
                    "orn"
                } else {
                    "orr"
                }
            }
            Insn::OrrImm { .. } => "orr",
            Insn::LdSt { mnemonic, .. } => mnemonic,
            Insn::Pair { load, signed, nontemporal, .. } => match (load, signed, nontemporal) {
                (true, true, _) => "ldpsw",
                (true, _, true) => "ldnp",
                (true, _, false) => "ldp",
                (false, _, true) => "stnp",
                (false, _, false) => "stp",
            },
            Insn::B { link, .. } => {
                if link {
                    "bl"
                } else {
                    "b"
                }
            }
            Insn::BCond { .. } => "b.cond",
            Insn::Cbz { nonzero, .. } => {
                if nonzero {
                    "cbnz"
                } else {
                    "cbz"
                }
            }
            Insn::Tbz { nonzero, .. } => {
                if nonzero {
                    "tbnz"
                } else {
                    "tbz"
                }
            }
            Insn::BReg { kind, .. } => ["br", "blr", "ret"][kind as usize],
            Insn::Nop => "nop",
        }
    }
    /// operand form / addressing mode
    pub fn mode(&self) -> &'static str {
        match *self {
            Insn::AddSubImm { .. } => "imm",
            Insn::AddSubShifted { .. } => "shifted",
            Insn::AddSubExt { .. } => "extended",
            Insn::MovWide { .. } => "wide",
            Insn::OrrShifted { .. } => "shifted",
            Insn::OrrImm { .. } => "bitmask",
            Insn::LdSt { addr, .. } | Insn::Pair { addr, .. } => addr.mode(),
            Insn::B { .. } | Insn::BCond { .. } | Insn::Cbz { .. } | Insn::Tbz { .. } => "direct",
            Insn::BReg { .. } => "indirect",
            Insn::Nop => "-",
        }
    }
}

// ---------------------------------------------------------------------------------------------
// state and interpreter

/// Byte-map memory.  With `fill_seed` set, a read of an absent byte materialises a
/// pseudo-random byte that is a pure function of (seed, address) and records it in
/// `materialised`, so that the same initial contents can be given to the system under test.
#[derive(Clone, Debug, PartialEq, Eq)]
pub struct Mem {
    pub bytes: BTreeMap<u64, u8>,
    pub big_endian: bool,
    pub fill_seed: Option<u64>,
    pub materialised: BTreeMap<u64, u8>,
}

pub fn fill_byte(seed: u64, addr: u64) -> u8 {
    let mut z = seed ^ addr.wrapping_mul(0x9E37_79B9_7F4A_7C15);
    z = z.wrapping_add(0x9E37_79B9_7F4A_7C15);
    z = (z ^ (z >> 30)).wrapping_mul(0xBF58_476D_1CE4_E5B9);
    z = (z ^ (z >> 27)).wrapping_mul(0x94D0_49BB_1331_11EB);
    (z ^ (z >> 31)) as u8
}

impl Mem {
    pub fn new(big_endian: bool) -> Mem {
        Mem { bytes: BTreeMap::new(), big_endian, fill_seed: None, materialised: BTreeMap::new() }
    }
    fn byte(&mut self, a: u64) -> Result<u8, Stop> {
        if let Some(b) = self.bytes.get(&a) {
            return Ok(*b);
        }
        match self.fill_seed {
            Some(s) => {
                let b = fill_byte(s, a);
                self.bytes.insert(a, b);
                self.materialised.insert(a, b);
                Ok(b)
            }
            None => Err(Stop::Unmapped(a)),
        }
    }
    /// `Mem[address, n]` read: the value of the n bytes under the data endianness
    pub fn read(&mut self, addr: u64, n: u8) -> Result<u128, Stop> {
        if addr.checked_add(n as u64 - 1).is_none() {
            return Err(Stop::AddressWrap);
        }
        let mut v: u128 = 0;
        for i in 0..n as u64 {
            let b = self.byte(addr + i)? as u128;
            if self.big_endian {
                v = (v << 8) | b;
            } else {
                v |= b << (8 * i);
            }
        }
        Ok(v)
    }
    pub fn write(&mut self, addr: u64, n: u8, v: u128) -> Result<(), Stop> {
        if addr.checked_add(n as u64 - 1).is_none() {
            return Err(Stop::AddressWrap);
        }
        for i in 0..n as u64 {
            let sh = if self.big_endian { 8 * (n as u64 - 1 - i) } else { 8 * i };
            self.bytes.insert(addr + i, (v >> sh) as u8);
        }
        Ok(())
    }
}

/// Why the reference does not prescribe a single outcome for this (instruction, state).
#[derive(Clone, Copy, Debug, PartialEq, Eq)]
pub enum Stop {
    /// CONSTRAINED UNPREDICTABLE in the Arm ARM
    Unpredictable(&'static str),
    /// SP is the base register and is not 16-byte aligned: faults iff SCTLR_ELx.SA is set
    SpAlignment,
    /// the access runs past 2^64
    AddressWrap,
    Unmapped(u64),
}

#[derive(Clone, Debug, PartialEq, Eq)]
pub struct A64State {
    pub x: [u64; 31],
    pub sp: u64,
    pub n: bool,
    pub z: bool,
    pub c: bool,
    pub v: bool,
    pub pc: u64,
    pub vreg: [u128; 32],
    pub mem: Mem,
}

/// What one step did, for classification.
#[derive(Clone, Debug, Default, PartialEq, Eq)]
pub struct StepInfo {
    /// (address, bytes, is_write)
    pub accesses: Vec<(u64, u8, bool)>,
    /// for flag-setting add/sub: (carry-out, signed overflow, zero result)
    pub flags: Option<(bool, bool, bool)>,
    /// conditional branches: taken?
    pub taken: Option<bool>,
    /// destination was the zero register (write discarded)
    pub discarded: bool,
    /// a 32-bit destination register was written
    pub wrote_w: bool,
}

/// `AddWithCarry(x, y, carry_in)` at width N (32 or 64): (result, n, z, c, v)
pub fn add_with_carry(x: u64, y: u64, carry_in: bool, width: u32) -> (u64, bool, bool, bool, bool) {
    let mask = ones(width) as u128;
    let (x, y) = (x as u128 & mask, y as u128 & mask);
    let sint = |a: u128| -> i128 {
        if (a >> (width - 1)) & 1 == 1 {
            a as i128 - (1i128 << width)
        } else {
            a as i128
        }
    };
    let unsigned_sum = x + y + carry_in as u128;
    let signed_sum = sint(x) + sint(y) + carry_in as i128;
    let result = unsigned_sum & mask;
    let n = (result >> (width - 1)) & 1 == 1;
    let z = result == 0;
    let c = result != unsigned_sum;
    let v = sint(result) != signed_sum;
    (result as u64, n, z, c, v)
}

/// `ShiftReg` at width N
pub fn shift_reg(v: u64, shift: Shift, amount: u32, width: u32) -> u64 {
    let m = ones(width);
    let v = v & m;
    let amount = amount % width;
    if amount == 0 {
        return v;
    }
    match shift {
        Shift::Lsl => (v << amount) & m,
        Shift::Lsr => v >> amount,
        Shift::Asr => {
            let sign = (v >> (width - 1)) & 1 == 1;
            let r = v >> amount;
            if sign {
                (r | (m << (width - amount))) & m
            } else {
                r
            }
        }
        Shift::Ror => ((v >> amount) | (v << (width - amount))) & m,
    }
}

/// `ExtendReg`: extend the low `8 << option<1:0>` bits of `v` (clipped to N - shift), then
/// shift left, at width N
pub fn extend_reg(v: u64, option: u8, shift: u32, width: u32) -> u64 {
    let unsigned = option & 4 == 0;
    let mut len = 8u32 << (option & 3);
    if len > width - shift {
        len = width - shift;
    }
    let field = v & ones(len);
    let ext = if unsigned || (field >> (len - 1)) & 1 == 0 { field } else { field | !ones(len) };
    (ext << shift) & ones(width)
}

/// `ConditionHolds`
pub fn condition_holds(cond: u8, n: bool, z: bool, c: bool, v: bool) -> bool {
    let r = match cond >> 1 {
        0 => z,
        1 => c,
        2 => n,
        3 => v,
        4 => c && !z,
        5 => n == v,
        6 => n == v && !z,
        _ => true,
    };
    if cond & 1 == 1 && cond != 15 {
        !r
    } else {
        r
    }
}

impl A64State {
    pub fn new(big_endian: bool) -> A64State {
        A64State { x: [0; 31], sp: 0, n: false, z: false, c: false, v: false, pc: 0, vreg: [0; 32], mem: Mem::new(big_endian) }
    }
    /// X[r] with 31 = ZR
    pub fn xz(&self, r: u8) -> u64 {
        if r == 31 {
            0
        } else {
            self.x[r as usize]
        }
    }
    /// X[r] with 31 = SP
    pub fn xs(&self, r: u8) -> u64 {
        if r == 31 {
            self.sp
        } else {
            self.x[r as usize]
        }
    }
    fn set_xz(&mut self, r: u8, v: u64, sf: bool, info: &mut StepInfo) {
        let v = if sf { v } else { v & 0xffff_ffff };
        info.wrote_w |= !sf;
        if r == 31 {
            info.discarded = true;
        } else {
            self.x[r as usize] = v;
        }
    }
    fn set_xs(&mut self, r: u8, v: u64, sf: bool, info: &mut StepInfo) {
        let v = if sf { v } else { v & 0xffff_ffff };
        info.wrote_w |= !sf;
        if r == 31 {
            self.sp = v;
        } else {
            self.x[r as usize] = v;
        }
    }
    pub fn nzcv(&self) -> u8 {
        (self.n as u8) << 3 | (self.z as u8) << 2 | (self.c as u8) << 1 | self.v as u8
    }
    pub fn set_nzcv(&mut self, f: u8) {
        self.n = f & 8 != 0;
        self.z = f & 4 != 0;
        self.c = f & 2 != 0;
        self.v = f & 1 != 0;
    }

    /// base address of a memory access (before the offset), with the SP alignment rule
    fn base(&self, rn: u8, prefetch: bool) -> Result<u64, Stop> {
        if rn == 31 {
            if !prefetch && self.sp % 16 != 0 {
                return Err(Stop::SpAlignment);
            }
            Ok(self.sp)
        } else {
            Ok(self.x[rn as usize])
        }
    }

    /// effective address of the (first) access and the value written back to the base, if any
    pub fn effective(&self, addr: Addr, rn: u8, prefetch: bool) -> Result<(u64, Option<u64>), Stop> {
        Ok(match addr {
            Addr::Literal(off) => (self.pc.wrapping_add(off as u64), None),
            Addr::Base => (self.base(rn, prefetch)?, None),
            Addr::UImm(i) => (self.base(rn, prefetch)?.wrapping_add(i), None),
            Addr::Off(i) => (self.base(rn, prefetch)?.wrapping_add(i as u64), None),
            Addr::Pre(i) => {
                let a = self.base(rn, prefetch)?.wrapping_add(i as u64);
                (a, Some(a))
            }
            Addr::Post(i) => {
                let b = self.base(rn, prefetch)?;
                (b, Some(b.wrapping_add(i as u64)))
            }
            Addr::Reg { rm, option, amount } => {
                let off = extend_reg(self.xz(rm), option, amount as u32, 64);
                (self.base(rn, prefetch)?.wrapping_add(off), None)
            }
        })
    }

    /// Execute one instruction at `self.pc`; on success `self.pc` is the next pc.
    pub fn step(&mut self, insn: &Insn) -> Result<StepInfo, Stop> {
        let mut info = StepInfo::default();
        let mut next = self.pc.wrapping_add(4);
        match *insn {
            Insn::AddSubImm { sf, sub, setflags, sh, imm12, rn, rd } => {
                let w = if sf { 64 } else { 32 };
                let imm = (imm12 as u64) << if sh { 12 } else { 0 };
                let op1 = self.xs(rn);
                let op2 = if sub { !imm } else { imm };
                let (r, n, z, c, v) = add_with_carry(op1, op2, sub, w);
                if setflags {
                    self.n = n;
                    self.z = z;
                    self.c = c;
                    self.v = v;
                    info.flags = Some((c, v, z));
                    self.set_xz(rd, r, sf, &mut info);
                } else {
                    self.set_xs(rd, r, sf, &mut info);
                }
            }
            Insn::AddSubShifted { sf, sub, setflags, shift, amount, rm, rn, rd } => {
                let w = if sf { 64 } else { 32 };
                let op1 = self.xz(rn);
                let op2 = shift_reg(self.xz(rm), shift, amount as u32, w);
                let op2 = if sub { !op2 } else { op2 };
                let (r, n, z, c, v) = add_with_carry(op1, op2, sub, w);
                if setflags {
                    self.n = n;
                    self.z = z;
                    self.c = c;
                    self.v = v;
                    info.flags = Some((c, v, z));
                }
                self.set_xz(rd, r, sf, &mut info);
            }
            Insn::AddSubExt { sf, sub, setflags, option, amount, rm, rn, rd } => {
                let w = if sf { 64 } else { 32 };
                let op1 = self.xs(rn);
                let op2 = extend_reg(self.xz(rm), option, amount as u32, w);
                let op2 = if sub { !op2 } else { op2 };
                let (r, n, z, c, v) = add_with_carry(op1, op2, sub, w);
                if setflags {
                    self.n = n;
                    self.z = z;
                    self.c = c;
                    self.v = v;
                    info.flags = Some((c, v, z));
                    self.set_xz(rd, r, sf, &mut info);
                } else {
                    self.set_xs(rd, r, sf, &mut info);
                }
            }
            Insn::MovWide { sf, opc, hw, imm16, rd } => {
                let pos = hw as u32 * 16;
                let mut r = if opc == 3 { self.xz(rd) } else { 0 };
                r = (r & !(0xffffu64 << pos)) | ((imm16 as u64) << pos);
                if opc == 0 {
                    r = !r;
                }
                self.set_xz(rd, r, sf, &mut info);
            }
            Insn::OrrShifted { sf, invert, shift, amount, rm, rn, rd } => {
                let w = if sf { 64 } else { 32 };
                let mut op2 = shift_reg(self.xz(rm), shift, amount as u32, w);
                if invert {
                    op2 = !op2;
                }
                let r = self.xz(rn) | op2;
                self.set_xz(rd, r, sf, &mut info);
            }
            Insn::OrrImm { sf, imm, rn, rd } => {
                let r = self.xz(rn) | imm;
                self.set_xs(rd, r, sf, &mut info);
            }
            Insn::LdSt { op, bytes, signed, regsize, simd, addr, rn, rt, .. } => {
                if addr.writeback() && !simd && rn == rt && rn != 31 && op != MemOp::Prefetch {
                    return Err(Stop::Unpredictable("write-back with Rn == Rt"));
                }
                let (ea, wb) = self.effective(addr, rn, op == MemOp::Prefetch)?;
                match op {
                    MemOp::Prefetch => {}
                    MemOp::Store => {
                        let data: u128 = if simd { self.vreg[rt as usize] & ones128(bytes as u32 * 8) } else { (self.xz(rt) as u128) & ones128(bytes as u32 * 8) };
                        self.mem.write(ea, bytes, data)?;
                        info.accesses.push((ea, bytes, true));
                    }
                    MemOp::Load => {
                        let data = self.mem.read(ea, bytes)?;
                        info.accesses.push((ea, bytes, false));
                        if simd {
                            self.vreg[rt as usize] = data;
                        } else {
                            let v = if signed { sext(data as u64, bytes as u32 * 8) as u64 } else { data as u64 };
                            self.set_xz(rt, v, regsize == 64, &mut info);
                        }
                    }
                }
                if let Some(a) = wb {
                    if rn == 31 {
                        self.sp = a;
                    } else {
                        self.x[rn as usize] = a;
                    }
                }
            }
            Insn::Pair { load, bytes, signed, simd, addr, rn, rt, rt2, .. } => {
                if addr.writeback() && !simd && (rn == rt || rn == rt2) && rn != 31 {
                    return Err(Stop::Unpredictable("pair write-back with Rn == Rt or Rt2"));
                }
                if load && rt == rt2 {
                    return Err(Stop::Unpredictable("load pair with Rt == Rt2"));
                }
                let (ea, wb) = self.effective(addr, rn, false)?;
                let ea2 = ea.wrapping_add(bytes as u64);
                if load {
                    let d1 = self.mem.read(ea, bytes)?;
                    let d2 = self.mem.read(ea2, bytes)?;
                    info.accesses.push((ea, bytes, false));
                    info.accesses.push((ea2, bytes, false));
                    if simd {
                        self.vreg[rt as usize] = d1;
                        self.vreg[rt2 as usize] = d2;
                    } else {
                        let cv = |d: u128| if signed { sext(d as u64, bytes as u32 * 8) as u64 } else { d as u64 };
                        let sf = signed || bytes == 8;
                        self.set_xz(rt, cv(d1), sf, &mut info);
                        self.set_xz(rt2, cv(d2), sf, &mut info);
                    }
                } else {
                    let m = ones128(bytes as u32 * 8);
                    let (d1, d2) = if simd { (self.vreg[rt as usize] & m, self.vreg[rt2 as usize] & m) } else { (self.xz(rt) as u128 & m, self.xz(rt2) as u128 & m) };
                    self.mem.write(ea, bytes, d1)?;
                    self.mem.write(ea2, bytes, d2)?;
                    info.accesses.push((ea, bytes, true));
                    info.accesses.push((ea2, bytes, true));
                }
                if let Some(a) = wb {
                    if rn == 31 {
                        self.sp = a;
                    } else {
                        self.x[rn as usize] = a;
                    }
                }
            }
            Insn::B { link, off } => {
                if link {
                    self.x[30] = self.pc.wrapping_add(4);
                }
                next = self.pc.wrapping_add(off as u64);
            }
            Insn::BCond { cond, off } => {
                let t = condition_holds(cond, self.n, self.z, self.c, self.v);
                info.taken = Some(t);
                if t {
                    next = self.pc.wrapping_add(off as u64);
                }
            }
            Insn::Cbz { sf, nonzero, off, rt } => {
                let v = if sf { self.xz(rt) } else { self.xz(rt) & 0xffff_ffff };
                let t = (v == 0) != nonzero;
                info.taken = Some(t);
                if t {
                    next = self.pc.wrapping_add(off as u64);
                }
            }
            Insn::Tbz { bit, nonzero, off, rt } => {
                let b = (self.xz(rt) >> bit) & 1 == 1;
                let t = b == nonzero;
                info.taken = Some(t);
                if t {
                    next = self.pc.wrapping_add(off as u64);
                }
            }
            Insn::BReg { kind, rn } => {
                let target = self.xz(rn);
                if kind == BReg::Blr {
                    self.x[30] = self.pc.wrapping_add(4);
                }
                next = target;
            }
            Insn::Nop => {}
        }
        self.pc = next;
        Ok(info)
    }

    /// falcon's IL names for this state: (name, value, bits).  Learned from
    /// lib/translator/aarch64/register.rs: only the full registers exist as scalars (`x0`..`x30`,
    /// `sp`, `v0`..`v31`); W/B/H/S/D/Q views are `trun` reads and zero-extending writes of
    /// those; flags are the 1-bit scalars `n z c v` (semantics.rs `scalar!`).
    pub fn il_scalars(&self) -> Vec<(String, u128, usize)> {
        let mut v = Vec::new();
        for i in 0..31 {
            v.push((format!("x{}", i), self.x[i] as u128, 64));
        }
        v.push(("sp".into(), self.sp as u128, 64));
        v.push(("n".into(), self.n as u128, 1));
        v.push(("z".into(), self.z as u128, 1));
        v.push(("c".into(), self.c as u128, 1));
        v.push(("v".into(), self.v as u128, 1));
        for i in 0..32 {
            v.push((format!("v{}", i), self.vreg[i], 128));
        }
        v
    }
}

fn ones128(n: u32) -> u128 {
    if n >= 128 {
        u128::MAX
    } else {
        (1u128 << n) - 1
    }
}

// ---------------------------------------------------------------------------------------------
// self-test: hand vectors (ported from falcon's aarch64 tests where they are architecturally
// right — the SUBS vectors there expect C = borrow, the Arm ARM says C = NOT borrow, so they are
// ported with the architectural C), plus identities against plain Rust integer arithmetic.

fn lcg(s: &mut u64) -> u64 {
    *s = s.wrapping_mul(6364136223846793005).wrapping_add(1442695040888963407);
    let mut z = *s;
    z = (z ^ (z >> 30)).wrapping_mul(0xBF58_476D_1CE4_E5B9);
    z ^ (z >> 27)
}

fn interesting(s: &mut u64) -> u64 {
    const B: [u64; 12] = [0, 1, u64::MAX, 1 << 63, (1 << 63) - 1, (1 << 63) + 1, 1 << 31, (1 << 31) - 1, 0xffff_ffff, 0x1_0000_0000, 0xffff_ffff_0000_0000, 0x8000_0000_8000_0000];
    let r = lcg(s);
    if r % 3 == 0 {
        B[(r >> 8) as usize % B.len()]
    } else {
        lcg(s)
    }
}

fn run1(word: u32, setup: &dyn Fn(&mut A64State)) -> Result<A64State, String> {
    let insn = match decode(word) {
        Decoded::Insn(i) => i,
        other => return Err(format!("word {:#010x} decodes to {:?}", word, other)),
    };
    let mut st = A64State::new(true);
    setup(&mut st);
    st.step(&insn).map_err(|e| format!("word {:#010x}: {:?}", word, e))?;
    Ok(st)
}

pub fn self_test() -> Result<u64, String> {
    let mut n = 0u64;
    macro_rules! ck {
        ($cond:expr, $($arg:tt)*) => {
            n += 1;
            if !$cond {
                return Err(format!("a64_ref self-test: {}", format!($($arg)*)));
            }
        };
    }
    // --- falcon test vectors: add family
    let v = |word: u32, regs: &[(usize, u64)], out: usize| -> Result<u64, String> {
        let regs = regs.to_vec();
        Ok(run1(word, &move |s| {
            for (r, v) in &regs {
                s.x[*r] = *v;
            }
        })?
        .x[out])
    };
    ck!(v(0x8b020020, &[(1, 1), (2, 3)], 0)? == 4, "add x0,x1,x2");
    ck!(v(0x8b020020, &[(1, 42), (2, u64::MAX)], 0)? == 41, "add x0,x1,x2 wrap");
    ck!(v(0x8b0073e0, &[(0, 0xbeef000000)], 0)? == 0xeef0000000000000, "add lsl #28");
    ck!(v(0x8b4063e0, &[(0, 0x12345678u64.wrapping_neg())], 0)? == 0x000000ffffffffed, "add lsr #24");
    ck!(v(0x8b8063e0, &[(0, 0x12345678u64.wrapping_neg())], 0)? == 0xffffffffffffffed, "add asr #24");
    ck!(v(0x8b20ec20, &[(0, 0x1111444422228888), (1, 0)], 0)? == 0x888a222111144440, "add sxtx #3");
    ck!(v(0x8b20cc20, &[(0, 0x11114444ffff8888), (1, 0)], 0)? == 0xfffffffffffc4440, "add sxtw #3");
    ck!(v(0x8b20ac20, &[(0, 0xffff00000000fedc), (1, 0)], 0)? == 0xfffffffffffff6e0, "add sxth #3");
    ck!(v(0x8b208c20, &[(0, 0xffff00000000fedc), (1, 0)], 0)? == 0xfffffffffffffee0, "add sxtb #3");
    ck!(v(0x8b206c20, &[(0, 0x1111444422228888), (1, 0)], 0)? == 0x888a222111144440, "add uxtx #3");
    ck!(v(0x8b204c20, &[(0, 0x11114444ffff8888), (1, 0)], 0)? == 0x00000007fffc4440, "add uxtw #3");
    ck!(v(0x8b202c20, &[(0, 0xffff00000000fedc), (1, 0)], 0)? == 0x000000000007f6e0, "add uxth #3");
    ck!(v(0x8b200c20, &[(0, 0xffff00000000fedc), (1, 0)], 0)? == 0x00000000000006e0, "add uxtb #3");
    ck!(v(0xcb020020, &[(1, 0x297feae8ee50966c), (2, 0x968855acc9024e5c)], 0)? == 0x92f7953c254e4810, "sub x0,x1,x2");
    ck!(v(0xd28005a0, &[], 0)? == 45, "mov x0,#45");
    // adds x0,x1,x2 (falcon's table) and subs x0,x1,x2 (falcon's table with the architectural C)
    for ((l, r), f) in [
        ((0xffffffffffffffffu64, 1u64), 0b0110u8),
        ((0, 0), 0b0100),
        ((0xcf5f3a38fad546ee, 0x6bdcb93bd7ac49a5), 0b0010),
        ((1, 2), 0b0000),
        ((0x7fffffffffffffff, 1), 0b1001),
    ] {
        let s = run1(0xab020020, &|s| {
            s.x[1] = l;
            s.x[2] = r;
        })?;
        ck!(s.x[0] == l.wrapping_add(r) && s.nzcv() == f, "adds {:#x}+{:#x}: nzcv {:04b}", l, r, s.nzcv());
    }
    for ((l, r), f) in [((0xffffffffffffffffu64, 1u64), 0b1010u8), ((0, 0), 0b0110), ((0xcf5f3a38fad546ee, 0x6bdcb93bd7ac49a5), 0b0011), ((1, 2), 0b1000)] {
        let s = run1(0xeb020020, &|s| {
            s.x[1] = l;
            s.x[2] = r;
        })?;
        ck!(s.x[0] == l.wrapping_sub(r) && s.nzcv() == f, "subs {:#x}-{:#x}: nzcv {:04b}", l, r, s.nzcv());
    }
    // --- falcon test vectors: loads / stores over big-endian data
    let base = 0xeed85f2300u64;
    let memsetup = move |s: &mut A64State| {
        s.x[9] = base;
        s.mem.write(base, 8, 0xdeadbeef12345678).unwrap();
        s.mem.write(base + 8, 8, 0x542fbb5cf6b74d14).unwrap();
    };
    let s = run1(0xa9400d2f, &memsetup)?;
    ck!(s.x[15] == 0xdeadbeef12345678 && s.x[3] == 0x542fbb5cf6b74d14, "ldp x15,x3,[x9]");
    let s = run1(0x29400d2f, &memsetup)?;
    ck!(s.x[15] == 0xdeadbeef && s.x[3] == 0x12345678, "ldp w15,w3,[x9]");
    let s = run1(0x69400d2f, &memsetup)?;
    ck!(s.x[15] == 0xffffffffdeadbeef && s.x[3] == 0x12345678, "ldpsw x15,x3,[x9]");
    ck!(run1(0xf940012f, &memsetup)?.x[15] == 0xdeadbeef12345678, "ldr x15,[x9]");
    ck!(run1(0xb940012f, &memsetup)?.x[15] == 0xdeadbeef, "ldr w15,[x9]");
    ck!(run1(0x7940012f, &memsetup)?.x[15] == 0xdead, "ldrh");
    ck!(run1(0x3940012f, &memsetup)?.x[15] == 0xde, "ldrb");
    let s = run1(0xf940052f, &memsetup)?;
    ck!(s.x[15] == 0x542fbb5cf6b74d14 && s.x[9] == base, "ldr x15,[x9,#8]");
    let s = run1(0xf8408d2f, &memsetup)?;
    ck!(s.x[15] == 0x542fbb5cf6b74d14 && s.x[9] == base + 8, "ldr x15,[x9,#8]!");
    let s = run1(0xf840852f, &memsetup)?;
    ck!(s.x[15] == 0xdeadbeef12345678 && s.x[9] == base + 8, "ldr x15,[x9],#8");
    ck!(run1(0x3dc0012f, &memsetup)?.vreg[15] == 0xdead_beef_1234_5678_542f_bb5c_f6b7_4d14, "ldr q15,[x9]");
    ck!(run1(0xb980012f, &memsetup)?.x[15] == 0xffffffffdeadbeef, "ldrsw");
    ck!(run1(0x7980012f, &memsetup)?.x[15] == 0xffffffffffffdead, "ldrsh x");
    ck!(run1(0x3980012f, &memsetup)?.x[15] == 0xffffffffffffffde, "ldrsb x");
    ck!(run1(0x79c0012f, &memsetup)?.x[15] == 0xffffdead, "ldrsh w");
    ck!(run1(0x39c0012f, &memsetup)?.x[15] == 0xffffffde, "ldrsb w");
    let regoff = |x8: u64, at: u64| {
        move |s: &mut A64State| {
            s.x[9] = base;
            s.x[8] = x8;
            s.mem.write(at, 8, 0xdeadbeef12345678).unwrap();
        }
    };
    ck!(run1(0xf868792f, &regoff(3, base + 24))?.x[15] == 0xdeadbeef12345678, "ldr x15,[x9,x8,lsl #3]");
    ck!(run1(0xf868c92f, &regoff((-16i32) as u32 as u64, base - 16))?.x[15] == 0xdeadbeef12345678, "ldr x15,[x9,w8,sxtw]");
    ck!(run1(0xf868d92f, &regoff((-1i32) as u32 as u64, base - 8))?.x[15] == 0xdeadbeef12345678, "ldr x15,[x9,w8,sxtw #3]");
    ck!(run1(0xf868592f, &regoff(0xffff_ffff, base + (0xffff_ffffu64 << 3)))?.x[15] == 0xdeadbeef12345678, "ldr x15,[x9,w8,uxtw #3]");
    ck!(run1(0xf840312f, &regoff(0, base + 3))?.x[15] == 0xdeadbeef12345678, "ldur x15,[x9,#3]");
    let stsetup = move |s: &mut A64State| {
        s.x[9] = base;
        s.x[15] = 0xdeadbeef12345678;
        s.x[28] = 0x5d90e16ef8ea43ce;
        s.vreg[15] = 0xdeadbeef12345678;
        s.mem.write(base, 8, 0).unwrap();
        s.mem.write(base + 8, 8, 0).unwrap();
    };
    let mut s = run1(0xa900712f, &stsetup)?;
    ck!(s.mem.read(base, 8).unwrap() == 0xdeadbeef12345678 && s.mem.read(base + 8, 8).unwrap() == 0x5d90e16ef8ea43ce, "stp x15,x28,[x9]");
    ck!(run1(0x2900712f, &stsetup)?.mem.read(base, 8).unwrap() == 0x12345678f8ea43ce, "stp w15,w28,[x9]");
    ck!(run1(0xf900012f, &stsetup)?.mem.read(base, 8).unwrap() == 0xdeadbeef12345678, "str x15,[x9]");
    ck!(run1(0xb900012f, &stsetup)?.mem.read(base, 8).unwrap() == 0x1234_5678_0000_0000, "str w15,[x9]");
    ck!(run1(0x3900012f, &stsetup)?.mem.read(base, 8).unwrap() == 0x7800_0000_0000_0000, "strb w15,[x9]");
    ck!(run1(0x7900012f, &stsetup)?.mem.read(base, 8).unwrap() == 0x5678_0000_0000_0000, "strh w15,[x9]");
    ck!(run1(0xb800312f, &stsetup)?.mem.read(base + 3, 4).unwrap() == 0x1234_5678, "stur w15,[x9,#3]");
    ck!(run1(0x3d80012f, &stsetup)?.mem.read(base, 16).unwrap() == 0xdeadbeef12345678, "str q15,[x9]");
    // little-endian data: the same load sees the bytes reversed
    {
        let insn = match decode(0xb940012f) {
            Decoded::Insn(i) => i,
            _ => return Err("decode ldr w".into()),
        };
        let mut st = A64State::new(false);
        st.x[9] = 0x100;
        for (i, b) in [0x78u8, 0x56, 0x34, 0x12].iter().enumerate() {
            st.mem.bytes.insert(0x100 + i as u64, *b);
        }
        st.step(&insn).map_err(|e| format!("{:?}", e))?;
        ck!(st.x[15] == 0x12345678, "little-endian ldr w15");
    }
    // --- falcon test vectors: branches
    let at = |pc: u64, f: &'static dyn Fn(&mut A64State)| move |s: &mut A64State| {
        s.pc = pc;
        f(s)
    };
    ck!(run1(0x14000002, &at(0, &|_| {}))?.pc == 8, "b +8");
    let s = run1(0x94000003, &at(4, &|_| {}))?;
    ck!(s.pc == 0x10 && s.x[30] == 8, "bl +12 at 4");
    let s = run1(0xd63f0020, &at(0, &|s| {
        s.x[1] = 8;
        s.x[30] = 4
    }))?;
    ck!(s.pc == 8 && s.x[30] == 4, "blr x1");
    ck!(run1(0xd61f0020, &at(0, &|s| s.x[1] = 8))?.pc == 8, "br x1");
    ck!(run1(0xd65f03c0, &at(0x14, &|s| s.x[30] = 8))?.pc == 8, "ret");
    ck!(run1(0xb5000044, &at(4, &|s| s.x[4] = 0))?.pc == 8, "cbnz x4 (zero)");
    ck!(run1(0xb5000044, &at(4, &|s| s.x[4] = !0))?.pc == 0xc, "cbnz x4 (ones)");
    ck!(run1(0xb4000044, &at(4, &|s| s.x[4] = 0))?.pc == 0xc, "cbz x4 (zero)");
    ck!(run1(0xb4000044, &at(4, &|s| s.x[4] = !0))?.pc == 8, "cbz x4 (ones)");
    ck!(run1(0x37800044, &at(4, &|s| s.x[4] = 0xdeacbeef))?.pc == 8, "tbnz #16 clear");
    ck!(run1(0x37800044, &at(4, &|s| s.x[4] = 0xdeadbeef))?.pc == 0xc, "tbnz #16 set");
    ck!(run1(0x36800044, &at(4, &|s| s.x[4] = 0xdeacbeef))?.pc == 0xc, "tbz #16 clear");
    ck!(run1(0x36800044, &at(4, &|s| s.x[4] = 0xdeadbeef))?.pc == 8, "tbz #16 set");
    // tbz x4, #63 / #32: the b5 bit selects the upper half
    ck!(run1(0xb6f80044, &at(4, &|s| s.x[4] = 1 << 62))?.pc == 0xc, "tbz #63 clear");
    ck!(run1(0xb6f80044, &at(4, &|s| s.x[4] = 1 << 63))?.pc == 8, "tbz #63 set");
    ck!(run1(0xb7000044, &at(4, &|s| s.x[4] = 1 << 32))?.pc == 0xc, "tbnz #32 set");
    ck!(run1(0xb7000044, &at(4, &|s| s.x[4] = 1))?.pc == 8, "tbnz #32 clear (bit 0 set)");
    // b.cond: falcon's table of all 16 conditions x 16 flag states
    let conds: [fn(bool, bool, bool, bool) -> bool; 16] = [
        |_n, z, _c, _v| z,
        |_n, z, _c, _v| !z,
        |_n, _z, c, _v| c,
        |_n, _z, c, _v| !c,
        |n, _z, _c, _v| n,
        |n, _z, _c, _v| !n,
        |_n, _z, _c, v| v,
        |_n, _z, _c, v| !v,
        |_n, z, c, _v| c && !z,
        |_n, z, c, _v| !(c && !z),
        |n, _z, _c, v| n == v,
        |n, _z, _c, v| n != v,
        |n, z, _c, v| !z && n == v,
        |n, z, _c, v| !(!z && n == v),
        |_n, _z, _c, _v| true,
        |_n, _z, _c, _v| true,
    ];
    for cond in 0..16u32 {
        for f in 0..16u8 {
            let s = run1(0x54000040 | cond, &move |s| {
                s.pc = 4;
                s.set_nzcv(f)
            })?;
            let want = conds[cond as usize](f & 8 != 0, f & 4 != 0, f & 2 != 0, f & 1 != 0);
            ck!(s.pc == if want { 0xc } else { 8 }, "b.{} nzcv={:04b}", COND_NAMES[cond as usize], f);
        }
    }
    // --- bitmask immediates (known encodings)
    for (word, imm) in [
        (0xb200f3e0u32, 0x5555555555555555u64),
        (0x320003e0, 1),
        (0xb24003e0, 1),
        (0xb2401fe0, 0xff),
        (0xb27ffbe1, 0xfffffffffffffffe),
        (0xb2607fe0, 0xffffffff00000000),
        (0x3200c3e0, 0x01010101),
        (0xb201f3e0, 0xaaaaaaaaaaaaaaaa),
    ] {
        match decode(word) {
            Decoded::Insn(Insn::OrrImm { imm: got, .. }) => {
                ck!(got == imm, "bitmask {:#x}: {:#x} != {:#x}", word, got, imm);
            }
            other => return Err(format!("bitmask {:#x} decodes to {:?}", word, other)),
        }
    }
    // every valid bitmask immediate is a rotated run of S+1 ones replicated over the register
    for nn in 0..2u32 {
        for imms in 0..64u32 {
            for immr in 0..64u32 {
                if let Some(m) = decode_bit_masks(nn, imms, immr, 64) {
                    let v = (nn << 6) | (!imms & 0x3f);
                    let len = 31 - v.leading_zeros();
                    let esize = 1u32 << len;
                    let s = imms & (esize - 1);
                    let e0 = m & ones(esize);
                    let mut ok = e0.count_ones() == s + 1 && m != 0 && m != u64::MAX;
                    let mut i = 0;
                    while i < 64 {
                        ok &= (m >> i) & ones(esize) == e0;
                        i += esize;
                    }
                    // rotating back by R gives the low run
                    let r = immr & (esize - 1);
                    let back = if r == 0 { e0 } else { ((e0 << r) | (e0 >> (esize - r))) & ones(esize) };
                    ok &= back == ones(s + 1);
                    ck!(ok, "decode_bit_masks N={} imms={} immr={} -> {:#x}", nn, imms, immr, m);
                }
            }
        }
    }
    // --- identities against plain Rust integer arithmetic
    let mut seed = 0xC03u64;
    for _ in 0..4000 {
        let (a, b) = (interesting(&mut seed), interesting(&mut seed));
        // 64-bit ADDS / SUBS (shifted register, LSL #0): adds x0,x1,x2 / subs x0,x1,x2
        let s = run1(0xab020020, &|s| {
            s.x[1] = a;
            s.x[2] = b
        })?;
        ck!(
            s.x[0] == a.wrapping_add(b) && s.c == a.checked_add(b).is_none() && s.v == (a as i64).checked_add(b as i64).is_none() && s.n == ((s.x[0] as i64) < 0) && s.z == (s.x[0] == 0),
            "adds identity {:#x} {:#x}",
            a,
            b
        );
        let s = run1(0xeb020020, &|s| {
            s.x[1] = a;
            s.x[2] = b
        })?;
        ck!(
            s.x[0] == a.wrapping_sub(b) && s.c == (a >= b) && s.v == (a as i64).checked_sub(b as i64).is_none() && s.n == ((s.x[0] as i64) < 0) && s.z == (a == b),
            "subs identity {:#x} {:#x}",
            a,
            b
        );
        // SUBS x,y == ADDS x,~y with carry-in 1
        let (r, fn_, fz, fc, fv) = add_with_carry(a, !b, true, 64);
        ck!(r == s.x[0] && (fn_, fz, fc, fv) == (s.n, s.z, s.c, s.v), "subs == adds(~y)+1");
        // 32-bit: adds w0,w1,w2 / subs w0,w1,w2; upper halves of the sources are ignored, of the destination cleared
        let (a32, b32) = (a as u32, b as u32);
        let s = run1(0x2b020020, &|s| {
            s.x[0] = !0;
            s.x[1] = a;
            s.x[2] = b
        })?;
        ck!(
            s.x[0] == a32.wrapping_add(b32) as u64 && s.c == a32.checked_add(b32).is_none() && s.v == (a32 as i32).checked_add(b32 as i32).is_none() && s.n == ((s.x[0] as u32 as i32) < 0) && s.z == (s.x[0] == 0),
            "adds w identity {:#x} {:#x}",
            a,
            b
        );
        let s = run1(0x6b020020, &|s| {
            s.x[0] = !0;
            s.x[1] = a;
            s.x[2] = b
        })?;
        ck!(
            s.x[0] == a32.wrapping_sub(b32) as u64 && s.c == (a32 >= b32) && s.v == (a32 as i32).checked_sub(b32 as i32).is_none() && s.z == (a32 == b32),
            "subs w identity {:#x} {:#x}",
            a,
            b
        );
        // CMP alias: subs xzr,x1,x2 sets the same flags and changes no register (SP included)
        let t = run1(0xeb02003f, &|s| {
            s.x[1] = a;
            s.x[2] = b;
            s.sp = 0x1234
        })?;
        let u = run1(0xeb020020, &|s| {
            s.x[1] = a;
            s.x[2] = b;
            s.sp = 0x1234
        })?;
        ck!(t.nzcv() == u.nzcv() && t.sp == 0x1234 && t.x[0] == 0 && t.x[1] == a && t.x[2] == b, "cmp alias");
        // ADD (immediate) with register 31 is SP for both Rn and Rd: add sp, sp, #16 ; add x0, sp, #1, lsl #12
        let t = run1(0x910043ff, &|s| s.sp = a)?;
        ck!(t.sp == a.wrapping_add(16) && t.x.iter().all(|x| *x == 0), "add sp,sp,#16");
        // ADDS (immediate) Rd=31 is ZR, Rn=31 is SP: adds xzr, sp, #1 (= cmn sp,#1)
        let t = run1(0xb10007ff, &|s| s.sp = a)?;
        ck!(t.sp == a && t.c == a.checked_add(1).is_none(), "cmn sp,#1");
        // ADD (shifted register): 31 is ZR everywhere: add x0, xzr, x2 with sp set
        let t = run1(0x8b0203e0, &|s| {
            s.sp = a;
            s.x[2] = b
        })?;
        ck!(t.x[0] == b, "add x0,xzr,x2");
        // ADD (extended): Rn=31 is SP, Rm=31 is ZR: add x0, sp, xzr, uxtx
        let t = run1(0x8b3f63e0, &|s| s.sp = a)?;
        ck!(t.x[0] == a, "add x0,sp,xzr,uxtx");
        // extend kinds against Rust casts: add x0, x1, w2, <ext> #2 with x1 = 0
        let amount = 2u32;
        for (option, want) in [
            (0u32, (b as u8) as u64),
            (1, (b as u16) as u64),
            (2, (b as u32) as u64),
            (3, b),
            (4, (b as i8) as i64 as u64),
            (5, (b as i16) as i64 as u64),
            (6, (b as i32) as i64 as u64),
            (7, b),
        ] {
            let t = run1(0x8b220020 | option << 13 | amount << 10, &|s| s.x[2] = b)?;
            ck!(t.x[0] == want << amount, "extend option {} of {:#x}", option, b);
        }
        // shifts: add x0, xzr, x2, <shift> #k
        let k = (a % 64) as u32;
        let t = run1(0x8b0203e0 | k << 10, &|s| s.x[2] = b)?;
        ck!(t.x[0] == b << k, "lsl");
        let t = run1(0x8b4203e0 | k << 10, &|s| s.x[2] = b)?;
        ck!(t.x[0] == b >> k, "lsr");
        let t = run1(0x8b8203e0 | k << 10, &|s| s.x[2] = b)?;
        ck!(t.x[0] == ((b as i64) >> k) as u64, "asr");
        let k = k % 32;
        let t = run1(0x0b8203e0 | k << 10, &|s| s.x[2] = b)?;
        ck!(t.x[0] == ((b as u32 as i32) >> k) as u32 as u64, "asr w");
        // sign-extending loads == sign extension of the zero-extending load
        let ld = |word: u32| -> Result<u64, String> {
            Ok(run1(word, &|s| {
                s.x[9] = 0x1000;
                s.x[15] = !0;
                s.mem.write(0x1000, 8, a as u128).unwrap()
            })?
            .x[15])
        };
        ck!(ld(0x3980012f)? == (ld(0x3940012f)? as u8 as i8) as i64 as u64, "ldrsb x == sext(ldrb)");
        ck!(ld(0x39c0012f)? == (ld(0x3940012f)? as u8 as i8) as i32 as u32 as u64, "ldrsb w == sext32(ldrb)");
        ck!(ld(0x7980012f)? == (ld(0x7940012f)? as u16 as i16) as i64 as u64, "ldrsh x == sext(ldrh)");
        ck!(ld(0x79c0012f)? == (ld(0x7940012f)? as u16 as i16) as i32 as u32 as u64, "ldrsh w == sext32(ldrh)");
        ck!(ld(0xb980012f)? == (ld(0xb940012f)? as u32 as i32) as i64 as u64, "ldrsw == sext(ldr w)");
        ck!(ld(0xb940012f)? >> 32 == 0, "ldr w clears the upper half");
        // movz / movn / movk
        let imm = (a & 0xffff) as u32;
        let hw = (b % 4) as u32;
        let t = run1(0xd2800000 | hw << 21 | imm << 5, &|s| s.x[0] = b)?;
        ck!(t.x[0] == (imm as u64) << (16 * hw), "movz");
        let t = run1(0x92800000 | hw << 21 | imm << 5, &|s| s.x[0] = b)?;
        ck!(t.x[0] == !((imm as u64) << (16 * hw)), "movn");
        let t = run1(0xf2800000 | hw << 21 | imm << 5, &|s| s.x[0] = b)?;
        ck!(t.x[0] == (b & !(0xffffu64 << (16 * hw))) | (imm as u64) << (16 * hw), "movk");
        let t = run1(0x12800000 | (hw & 1) << 21 | imm << 5, &|s| s.x[0] = b)?;
        ck!(t.x[0] == (!((imm as u64) << (16 * (hw & 1)))) & 0xffff_ffff, "movn w clears the upper half");
        // post-index uses the old base, pre-index the new one; pair order
        let t = run1(0xf8408d2f, &|s| {
            s.x[9] = 0x1000;
            s.mem.write(0x1000, 8, a as u128).unwrap();
            s.mem.write(0x1008, 8, b as u128).unwrap()
        })?;
        ck!(t.x[15] == b && t.x[9] == 0x1008, "pre-index");
        let t = run1(0xf840852f, &|s| {
            s.x[9] = 0x1000;
            s.mem.write(0x1000, 8, a as u128).unwrap();
            s.mem.write(0x1008, 8, b as u128).unwrap()
        })?;
        ck!(t.x[15] == a && t.x[9] == 0x1008, "post-index");
        let t = run1(0xa8c10d2f, &|s| {
            s.x[9] = 0x1000;
            s.mem.write(0x1000, 8, a as u128).unwrap();
            s.mem.write(0x1008, 8, b as u128).unwrap()
        })?;
        ck!(t.x[15] == a && t.x[3] == b && t.x[9] == 0x1010, "ldp post-index");
    }
    // exclusions are reported, not guessed
    let unp = |word: u32| -> bool {
        match decode(word) {
            Decoded::Insn(i) => {
                let mut s = A64State::new(false);
                s.mem.fill_seed = Some(1);
                matches!(s.step(&i), Err(Stop::Unpredictable(_)))
            }
            _ => false,
        }
    };
    ck!(unp(0xf8408d29), "ldr x9,[x9,#8]! is unpredictable");
    ck!(unp(0xf8008d29), "str x9,[x9,#8]! is unpredictable");
    ck!(unp(0xa9400d23), "ldp x3,x3,[x9] is unpredictable");
    ck!(unp(0xa8c10d29), "ldp x9,x3,[x9],#16 is unpredictable");
    ck!(!unp(0xf8408fff), "ldr xzr,[sp,#8]! is fine");
    {
        let mut s = A64State::new(false);
        s.mem.fill_seed = Some(1);
        s.sp = 8;
        let i = match decode(0xf94003e0) {
            Decoded::Insn(i) => i,
            _ => return Err("decode ldr x0,[sp]".into()),
        };
        ck!(s.step(&i) == Err(Stop::SpAlignment), "ldr x0,[sp] with sp=8");
    }
    ck!(matches!(decode(0x8b20f420), Decoded::Undefined(_)), "add extended imm3=5 is undefined");
    ck!(matches!(decode(0x8bc20020), Decoded::Undefined(_)), "add shifted shift=11 is undefined");
    ck!(matches!(decode(0x0b028020), Decoded::Undefined(_)), "add w shifted imm6=32 is undefined");
    Ok(n)
}
