//! Template encoders for the A64 instruction classes named by property C03.  Every encoder
//! takes *every* field of the encoding as a parameter (fields are masked to their width), so a
//! generator can vary sf, shift type/amount, option/imm3, all immediates and every register
//! position including 31.  `gen_word` draws one class and all of its fields from a `Tape`.
//!
//! Reuse: `#[path = "../c03/a64_asm.rs"] mod a64_asm;` — depends only on `fv::tape::Tape`.

#![allow(dead_code)]
#![allow(clippy::too_many_arguments)]

use fv::tape::Tape;

fn f(v: u32, width: u32, lsb: u32) -> u32 {
    (v & ((1u32 << width) - 1)) << lsb
}

/// ADD/ADDS/SUB/SUBS (immediate): sf op S 100010 sh imm12 Rn Rd
pub fn add_sub_imm(sf: u32, op: u32, s: u32, sh: u32, imm12: u32, rn: u32, rd: u32) -> u32 {
    f(sf, 1, 31) | f(op, 1, 30) | f(s, 1, 29) | f(0b100010, 6, 23) | f(sh, 1, 22) | f(imm12, 12, 10) | f(rn, 5, 5) | f(rd, 5, 0)
}
/// ADD/ADDS/SUB/SUBS (shifted register): sf op S 01011 shift 0 Rm imm6 Rn Rd
pub fn add_sub_shifted(sf: u32, op: u32, s: u32, shift: u32, rm: u32, imm6: u32, rn: u32, rd: u32) -> u32 {
    f(sf, 1, 31) | f(op, 1, 30) | f(s, 1, 29) | f(0b01011, 5, 24) | f(shift, 2, 22) | f(rm, 5, 16) | f(imm6, 6, 10) | f(rn, 5, 5) | f(rd, 5, 0)
}
/// ADD/ADDS/SUB/SUBS (extended register): sf op S 01011 00 1 Rm option imm3 Rn Rd
pub fn add_sub_ext(sf: u32, op: u32, s: u32, rm: u32, option: u32, imm3: u32, rn: u32, rd: u32) -> u32 {
    f(sf, 1, 31) | f(op, 1, 30) | f(s, 1, 29) | f(0b01011, 5, 24) | f(1, 1, 21) | f(rm, 5, 16) | f(option, 3, 13) | f(imm3, 3, 10) | f(rn, 5, 5) | f(rd, 5, 0)
}
/// MOVN (opc 0) / MOVZ (2) / MOVK (3): sf opc 100101 hw imm16 Rd
pub fn mov_wide(sf: u32, opc: u32, hw: u32, imm16: u32, rd: u32) -> u32 {
    f(sf, 1, 31) | f(opc, 2, 29) | f(0b100101, 6, 23) | f(hw, 2, 21) | f(imm16, 16, 5) | f(rd, 5, 0)
}
/// logical (shifted register): sf opc 01010 shift N Rm imm6 Rn Rd   (opc 1 = ORR/ORN)
pub fn logical_shifted(sf: u32, opc: u32, shift: u32, n: u32, rm: u32, imm6: u32, rn: u32, rd: u32) -> u32 {
    f(sf, 1, 31) | f(opc, 2, 29) | f(0b01010, 5, 24) | f(shift, 2, 22) | f(n, 1, 21) | f(rm, 5, 16) | f(imm6, 6, 10) | f(rn, 5, 5) | f(rd, 5, 0)
}
/// logical (immediate): sf opc 100100 N immr imms Rn Rd   (opc 1 = ORR)
pub fn logical_imm(sf: u32, opc: u32, n: u32, immr: u32, imms: u32, rn: u32, rd: u32) -> u32 {
    f(sf, 1, 31) | f(opc, 2, 29) | f(0b100100, 6, 23) | f(n, 1, 22) | f(immr, 6, 16) | f(imms, 6, 10) | f(rn, 5, 5) | f(rd, 5, 0)
}
/// load/store register (unsigned immediate): size 111 V 01 opc imm12 Rn Rt
pub fn ldst_uimm(size: u32, v: u32, opc: u32, imm12: u32, rn: u32, rt: u32) -> u32 {
    f(size, 2, 30) | f(0b111, 3, 27) | f(v, 1, 26) | f(0b01, 2, 24) | f(opc, 2, 22) | f(imm12, 12, 10) | f(rn, 5, 5) | f(rt, 5, 0)
}
pub const IDX_UNSCALED: u32 = 0b00;
pub const IDX_POST: u32 = 0b01;
pub const IDX_PRE: u32 = 0b11;
/// load/store register (imm9): size 111 V 00 opc 0 imm9 idx Rn Rt; idx = 00 unscaled, 01 post, 11 pre
pub fn ldst_imm9(size: u32, v: u32, opc: u32, imm9: u32, idx: u32, rn: u32, rt: u32) -> u32 {
    f(size, 2, 30) | f(0b111, 3, 27) | f(v, 1, 26) | f(opc, 2, 22) | f(imm9, 9, 12) | f(idx, 2, 10) | f(rn, 5, 5) | f(rt, 5, 0)
}
/// load/store register (register offset): size 111 V 00 opc 1 Rm option S 10 Rn Rt
pub fn ldst_reg(size: u32, v: u32, opc: u32, rm: u32, option: u32, s: u32, rn: u32, rt: u32) -> u32 {
    f(size, 2, 30) | f(0b111, 3, 27) | f(v, 1, 26) | f(opc, 2, 22) | f(1, 1, 21) | f(rm, 5, 16) | f(option, 3, 13) | f(s, 1, 12) | f(0b10, 2, 10) | f(rn, 5, 5) | f(rt, 5, 0)
}
/// load register (literal): opc 011 V 00 imm19 Rt
pub fn ld_literal(opc: u32, v: u32, imm19: u32, rt: u32) -> u32 {
    f(opc, 2, 30) | f(0b011, 3, 27) | f(v, 1, 26) | f(imm19, 19, 5) | f(rt, 5, 0)
}
pub const PAIR_NOALLOC: u32 = 0b000;
pub const PAIR_POST: u32 = 0b001;
pub const PAIR_OFFSET: u32 = 0b010;
pub const PAIR_PRE: u32 = 0b011;
/// load/store pair: opc 101 V typ L imm7 Rt2 Rn Rt
pub fn ldst_pair(opc: u32, v: u32, typ: u32, l: u32, imm7: u32, rt2: u32, rn: u32, rt: u32) -> u32 {
    f(opc, 2, 30) | f(0b101, 3, 27) | f(v, 1, 26) | f(typ, 3, 23) | f(l, 1, 22) | f(imm7, 7, 15) | f(rt2, 5, 10) | f(rn, 5, 5) | f(rt, 5, 0)
}
/// LDAR/STLR (o0 = 1), LDLAR/STLLR (o0 = 0): size 001000 1 L 0 Rs o0 Rt2 Rn Rt  (Rs, Rt2 should be 31)
pub fn ldst_ordered(size: u32, l: u32, o0: u32, rs: u32, rt2: u32, rn: u32, rt: u32) -> u32 {
    f(size, 2, 30) | f(0b001000, 6, 24) | f(1, 1, 23) | f(l, 1, 22) | f(rs, 5, 16) | f(o0, 1, 15) | f(rt2, 5, 10) | f(rn, 5, 5) | f(rt, 5, 0)
}
/// STLUR* (opc 0) / LDAPUR* (opc 1) / LDAPURS* (2, 3): size 011001 opc 0 imm9 00 Rn Rt
pub fn ldst_rcpc_unscaled(size: u32, opc: u32, imm9: u32, rn: u32, rt: u32) -> u32 {
    f(size, 2, 30) | f(0b011001, 6, 24) | f(opc, 2, 22) | f(imm9, 9, 12) | f(rn, 5, 5) | f(rt, 5, 0)
}
/// B (op 0) / BL (op 1)
pub fn b_imm(op: u32, imm26: u32) -> u32 {
    f(op, 1, 31) | f(0b00101, 5, 26) | f(imm26, 26, 0)
}
pub fn b_cond(imm19: u32, cond: u32) -> u32 {
    f(0b01010100, 8, 24) | f(imm19, 19, 5) | f(cond, 4, 0)
}
/// CBZ (op 0) / CBNZ (op 1)
pub fn cbz(sf: u32, op: u32, imm19: u32, rt: u32) -> u32 {
    f(sf, 1, 31) | f(0b011010, 6, 25) | f(op, 1, 24) | f(imm19, 19, 5) | f(rt, 5, 0)
}
/// TBZ (op 0) / TBNZ (op 1); bit = b5:b40
pub fn tbz(bit: u32, op: u32, imm14: u32, rt: u32) -> u32 {
    f(bit >> 5, 1, 31) | f(0b011011, 6, 25) | f(op, 1, 24) | f(bit, 5, 19) | f(imm14, 14, 5) | f(rt, 5, 0)
}
/// BR (opc 0) / BLR (1) / RET (2)
pub fn br_reg(opc: u32, rn: u32) -> u32 {
    0xd61f0000 | f(opc, 4, 21) | f(rn, 5, 5)
}
pub fn nop() -> u32 {
    0xd503201f
}
/// HINT #(crm:op2)
pub fn hint(crm: u32, op2: u32) -> u32 {
    0xd503201f | f(crm, 4, 8) | f(op2, 3, 5)
}

// ---------------------------------------------------------------------------------------------
// generation

/// a register number with 31 (and 30, the link register) over-represented
pub fn reg(t: &mut Tape) -> u32 {
    match t.below(8) {
        0 => t.below(32) as u32, // 0 stays the simplest choice
        1 => 31,
        2 => {
            if t.chance(1, 2) {
                30
            } else {
                29
            }
        }
        _ => t.below(32) as u32,
    }
}

fn imm(t: &mut Tape, bits: u32) -> u32 {
    let m = (1u32 << bits) - 1;
    match t.below(6) {
        0 => t.below(9) as u32,                    // small
        1 => m.wrapping_sub(t.below(9) as u32) & m, // small negative / top
        2 => 1 << (bits - 1),                      // sign bit only
        3 => (1 << (bits - 1)) - 1,
        _ => t.raw() & m,
    }
}

/// The template families; `gen_word` picks uniformly unless told otherwise.
pub const FAMILIES: [&str; 20] = [
    "addsub-imm", "addsub-shifted", "addsub-ext", "mov-wide", "mov-reg", "mov-bitmask", "ldst-uimm", "ldst-unscaled", "ldst-pre", "ldst-post", "ldst-regoff", "ld-literal",
    "pair", "ordered", "b-bl", "br-blr-ret", "b-cond", "cbz", "tbz", "nop-prfm",
];

/// One template-generated word with all fields random.  `strict` keeps the should-be-fixed
/// fields at values that are allocated (no UNDEFINED shift/option/opc combinations) with high
/// probability, but never always.
pub fn gen_family(t: &mut Tape, family: usize) -> u32 {
    let loose = t.chance(1, 16);
    let sf = t.below(2) as u32;
    match FAMILIES[family] {
        "addsub-imm" => {
            let (op, s) = (t.below(2) as u32, t.below(2) as u32);
            let sh = t.below(2) as u32;
            // imm12 == 0 with SP operands is the MOV (to/from SP) alias
            let i = if t.chance(1, 6) { 0 } else { imm(t, 12) };
            add_sub_imm(sf, op, s, sh, i, reg(t), reg(t))
        }
        "addsub-shifted" => {
            let (op, s) = (t.below(2) as u32, t.below(2) as u32);
            let shift = if loose { t.below(4) } else { t.below(3) } as u32;
            let amt = if loose || sf == 1 { t.below(64) } else { t.below(32) } as u32;
            let amt = if t.chance(1, 4) { 0 } else { amt };
            add_sub_shifted(sf, op, s, shift, reg(t), amt, reg(t), reg(t))
        }
        "addsub-ext" => {
            let (op, s) = (t.below(2) as u32, t.below(2) as u32);
            let imm3 = if loose { t.below(8) } else { t.below(5) } as u32;
            add_sub_ext(sf, op, s, reg(t), t.below(8) as u32, imm3, reg(t), reg(t))
        }
        "mov-wide" => {
            let opc = if loose { t.below(4) as u32 } else { [2u32, 0, 3][t.below(3)] };
            let hw = if loose || sf == 1 { t.below(4) } else { t.below(2) } as u32;
            let i = match t.below(5) {
                0 => 0,
                1 => 0xffff,
                _ => imm(t, 16),
            };
            mov_wide(sf, opc, hw, i, reg(t))
        }
        "mov-reg" => {
            // ORR (shifted register); the MOV alias needs Rn = 31, LSL #0
            let alias = !t.chance(1, 4);
            let rn = if alias { 31 } else { reg(t) };
            let (shift, amt) = if alias { (0, 0) } else { (t.below(4) as u32, t.below(if sf == 1 { 64 } else { 32 }) as u32) };
            let n = if loose { 1 } else { 0 };
            logical_shifted(sf, 1, shift, n, reg(t), amt, rn, reg(t))
        }
        "mov-bitmask" => {
            let rn = if t.chance(1, 4) { reg(t) } else { 31 };
            let n = if sf == 1 { t.below(2) as u32 } else if loose { 1 } else { 0 };
            logical_imm(sf, 1, n, t.below(64) as u32, t.below(64) as u32, rn, reg(t))
        }
        "ldst-uimm" | "ldst-unscaled" | "ldst-pre" | "ldst-post" | "ldst-regoff" => {
            let size = t.below(4) as u32;
            // mostly integer registers; SIMD&FP register forms now and then
            let v = t.chance(1, 8) as u32;
            let opc = if v == 1 {
                if size == 0 || loose {
                    t.below(4) as u32
                } else {
                    t.below(2) as u32
                }
            } else {
                t.below(4) as u32
            };
            let (rn, rt) = (reg(t), reg(t));
            // write-back forms: make Rn == Rt (CONSTRAINED UNPREDICTABLE unless 31) rare but present
            match FAMILIES[family] {
                "ldst-uimm" => ldst_uimm(size, v, opc, imm(t, 12), rn, rt),
                "ldst-unscaled" => ldst_imm9(size, v, opc, imm(t, 9), IDX_UNSCALED, rn, rt),
                "ldst-pre" => ldst_imm9(size, v, opc, imm(t, 9), IDX_PRE, rn, rt),
                "ldst-post" => ldst_imm9(size, v, opc, imm(t, 9), IDX_POST, rn, rt),
                _ => {
                    let option = if loose { t.below(8) as u32 } else { [3u32, 2, 6, 7][t.below(4)] };
                    ldst_reg(size, v, opc, reg(t), option, t.below(2) as u32, rn, rt)
                }
            }
        }
        "ld-literal" => {
            let v = t.chance(1, 8) as u32;
            ld_literal(t.below(4) as u32, v, imm(t, 19), reg(t))
        }
        "pair" => {
            let v = t.chance(1, 8) as u32;
            let opc = if loose { t.below(4) } else if v == 1 { t.below(3) } else { [0usize, 2, 1][t.below(3)] } as u32;
            let typ = t.below(4) as u32;
            let l = if opc == 1 && v == 0 && !loose { 1 } else { t.below(2) as u32 };
            let (rt2, rn, rt) = (reg(t), reg(t), reg(t));
            ldst_pair(opc, v, typ, l, imm(t, 7), rt2, rn, rt)
        }
        "ordered" => {
            if t.chance(1, 4) {
                // STLUR / LDAPUR family
                let opc = if t.chance(1, 2) { 0 } else { t.below(4) as u32 };
                ldst_rcpc_unscaled(t.below(4) as u32, opc, imm(t, 9), reg(t), reg(t))
            } else {
                let (rs, rt2) = if loose { (reg(t), reg(t)) } else { (31, 31) };
                ldst_ordered(t.below(4) as u32, t.below(2) as u32, t.below(2) as u32, rs, rt2, reg(t), reg(t))
            }
        }
        "b-bl" => b_imm(t.below(2) as u32, imm(t, 26)),
        "br-blr-ret" => br_reg(t.below(3) as u32, reg(t)),
        "b-cond" => b_cond(imm(t, 19), t.below(16) as u32),
        "cbz" => cbz(sf, t.below(2) as u32, imm(t, 19), reg(t)),
        "tbz" => tbz(t.below(64) as u32, t.below(2) as u32, imm(t, 14), reg(t)),
        _ => match t.below(6) {
            0 => nop(),
            1 => ldst_uimm(3, 0, 2, imm(t, 12), reg(t), t.below(32) as u32), // PRFM (immediate)
            2 => ldst_reg(3, 0, 2, reg(t), [3u32, 2, 6, 7][t.below(4)], t.below(2) as u32, reg(t), t.below(32) as u32), // PRFM (register)
            3 => ld_literal(3, 0, imm(t, 19), t.below(32) as u32),           // PRFM (literal)
            4 => ldst_imm9(3, 0, 2, imm(t, 9), IDX_UNSCALED, reg(t), t.below(32) as u32), // PRFUM
            _ => {
                if loose {
                    hint(t.below(16) as u32, t.below(8) as u32)
                } else {
                    nop()
                }
            }
        },
    }
}

pub fn gen_word(t: &mut Tape) -> (usize, u32) {
    let fam = t.below(FAMILIES.len());
    (fam, gen_family(t, fam))
}
