//! Start-up self-checks of the C03 oracle (exit 3 when one fails) and the frozen floors.

use super::a64_asm as asm;
use super::a64_ref::{self, Addr, BReg, Decoded, Insn, MemOp, Shift};

fn lcg(s: &mut u64) -> u32 {
    *s = s.wrapping_mul(6364136223846793005).wrapping_add(1442695040888963407);
    (*s >> 33) as u32
}

/// encoder -> reference decoder round trip: every field comes back where it was put
fn round_trip() -> Result<u64, String> {
    let mut s = 0xA64u64;
    let mut n = 0u64;
    macro_rules! expect {
        ($word:expr, $pat:pat if $cond:expr, $what:expr) => {{
            n += 1;
            let w = $word;
            match a64_ref::decode(w) {
                Decoded::Insn($pat) if $cond => {}
                other => return Err(format!("round trip {}: word {:#010x} decodes to {:?}", $what, w, other)),
            }
        }};
    }
    for _ in 0..3000 {
        let r = |s: &mut u64, m: u32| lcg(s) % m;
        let (sf, op, fl) = (r(&mut s, 2), r(&mut s, 2), r(&mut s, 2));
        let (rd, rn, rm, rt2) = (r(&mut s, 32), r(&mut s, 32), r(&mut s, 32), r(&mut s, 32));
        let (imm12, sh) = (r(&mut s, 4096), r(&mut s, 2));
        expect!(
            asm::add_sub_imm(sf, op, fl, sh, imm12, rn, rd),
            Insn::AddSubImm { sf: a, sub: b, setflags: c, sh: d, imm12: e, rn: f, rd: g }
                if (a as u32, b as u32, c as u32, d as u32, e as u32, f as u32, g as u32) == (sf, op, fl, sh, imm12, rn, rd),
            "add_sub_imm"
        );
        let shift = r(&mut s, 3);
        let imm6 = r(&mut s, if sf == 1 { 64 } else { 32 });
        expect!(
            asm::add_sub_shifted(sf, op, fl, shift, rm, imm6, rn, rd),
            Insn::AddSubShifted { sf: a, sub: b, setflags: c, shift: d, amount: e, rm: f, rn: g, rd: h }
                if (a as u32, b as u32, c as u32, d as u32, e as u32, f as u32, g as u32, h as u32) == (sf, op, fl, shift, imm6, rm, rn, rd),
            "add_sub_shifted"
        );
        let (option, imm3) = (r(&mut s, 8), r(&mut s, 5));
        expect!(
            asm::add_sub_ext(sf, op, fl, rm, option, imm3, rn, rd),
            Insn::AddSubExt { sf: a, sub: b, setflags: c, option: d, amount: e, rm: f, rn: g, rd: h }
                if (a as u32, b as u32, c as u32, d as u32, e as u32, f as u32, g as u32, h as u32) == (sf, op, fl, option, imm3, rm, rn, rd),
            "add_sub_ext"
        );
        let opc = [0u32, 2, 3][r(&mut s, 3) as usize];
        let hw = r(&mut s, if sf == 1 { 4 } else { 2 });
        let imm16 = r(&mut s, 65536);
        expect!(
            asm::mov_wide(sf, opc, hw, imm16, rd),
            Insn::MovWide { sf: a, opc: b, hw: c, imm16: d, rd: e } if (a as u32, b as u32, c as u32, d as u32, e as u32) == (sf, opc, hw, imm16, rd),
            "mov_wide"
        );
        let sh4 = r(&mut s, 4);
        let nbit = r(&mut s, 2);
        expect!(
            asm::logical_shifted(sf, 1, sh4, nbit, rm, imm6, rn, rd),
            Insn::OrrShifted { sf: a, invert: b, shift: c, amount: d, rm: e, rn: f, rd: g }
                if (a as u32, b as u32, c as u32, d as u32, e as u32, f as u32, g as u32) == (sf, nbit, sh4, imm6, rm, rn, rd),
            "logical_shifted"
        );
        // loads / stores (integer)
        let size = r(&mut s, 4);
        let lopc = r(&mut s, 2); // store / load
        let want_op = if lopc == 1 { MemOp::Load } else { MemOp::Store };
        let rt = rd;
        expect!(
            asm::ldst_uimm(size, 0, lopc, imm12, rn, rt),
            Insn::LdSt { op, bytes, signed: false, simd: false, addr: Addr::UImm(i), rn: a, rt: b, .. }
                if op == want_op && bytes as u32 == 1 << size && i == (imm12 as u64) << size && (a as u32, b as u32) == (rn, rt),
            "ldst_uimm"
        );
        let imm9 = r(&mut s, 512);
        let simm9 = ((imm9 << 23) as i32 >> 23) as i64;
        expect!(
            asm::ldst_imm9(size, 0, lopc, imm9, asm::IDX_UNSCALED, rn, rt),
            Insn::LdSt { op, addr: Addr::Off(i), rn: a, rt: b, .. } if op == want_op && i == simm9 && (a as u32, b as u32) == (rn, rt),
            "ldst unscaled"
        );
        expect!(
            asm::ldst_imm9(size, 0, lopc, imm9, asm::IDX_PRE, rn, rt),
            Insn::LdSt { op, addr: Addr::Pre(i), rn: a, rt: b, .. } if op == want_op && i == simm9 && (a as u32, b as u32) == (rn, rt),
            "ldst pre"
        );
        expect!(
            asm::ldst_imm9(size, 0, lopc, imm9, asm::IDX_POST, rn, rt),
            Insn::LdSt { op, addr: Addr::Post(i), rn: a, rt: b, .. } if op == want_op && i == simm9 && (a as u32, b as u32) == (rn, rt),
            "ldst post"
        );
        let ropt = [2u32, 3, 6, 7][r(&mut s, 4) as usize];
        let sbit = r(&mut s, 2);
        expect!(
            asm::ldst_reg(size, 0, lopc, rm, ropt, sbit, rn, rt),
            Insn::LdSt { op, addr: Addr::Reg { rm: m, option: o, amount: am }, rn: a, rt: b, .. }
                if op == want_op && (m as u32, o as u32, am as u32, a as u32, b as u32) == (rm, ropt, sbit * size, rn, rt),
            "ldst_reg"
        );
        // signed loads: size 0..2 opc 2 -> 64-bit, size 0..1 opc 3 -> 32-bit
        let ssize = r(&mut s, 3);
        expect!(
            asm::ldst_uimm(ssize, 0, 2, imm12, rn, rt),
            Insn::LdSt { op: MemOp::Load, signed: true, regsize: 64, bytes, .. } if bytes as u32 == 1 << ssize,
            "signed load x"
        );
        expect!(
            asm::ldst_uimm(ssize % 2, 0, 3, imm12, rn, rt),
            Insn::LdSt { op: MemOp::Load, signed: true, regsize: 32, bytes, .. } if bytes as u32 == 1 << (ssize % 2),
            "signed load w"
        );
        let imm19 = r(&mut s, 1 << 19);
        let simm19 = ((imm19 << 13) as i32 >> 13) as i64 * 4;
        expect!(
            asm::ld_literal(r(&mut s, 3), 0, imm19, rt),
            Insn::LdSt { op: MemOp::Load, addr: Addr::Literal(o), rt: b, .. } if o == simm19 && b as u32 == rt,
            "ld_literal"
        );
        // pairs
        let imm7 = r(&mut s, 128);
        let simm7 = ((imm7 << 25) as i32 >> 25) as i64;
        let popc = [0u32, 2][r(&mut s, 2) as usize];
        let l = r(&mut s, 2);
        let pbytes = if popc == 2 { 8i64 } else { 4 };
        expect!(
            asm::ldst_pair(popc, 0, asm::PAIR_OFFSET, l, imm7, rt2, rn, rt),
            Insn::Pair { load, bytes, signed: false, simd: false, addr: Addr::Off(o), nontemporal: false, rn: a, rt: b, rt2: c }
                if load as u32 == l && bytes as i64 == pbytes && o == simm7 * pbytes && (a as u32, b as u32, c as u32) == (rn, rt, rt2),
            "pair offset"
        );
        expect!(
            asm::ldst_pair(popc, 0, asm::PAIR_PRE, l, imm7, rt2, rn, rt),
            Insn::Pair { addr: Addr::Pre(o), .. } if o == simm7 * pbytes,
            "pair pre"
        );
        expect!(
            asm::ldst_pair(popc, 0, asm::PAIR_POST, l, imm7, rt2, rn, rt),
            Insn::Pair { addr: Addr::Post(o), .. } if o == simm7 * pbytes,
            "pair post"
        );
        expect!(
            asm::ldst_pair(popc, 0, asm::PAIR_NOALLOC, l, imm7, rt2, rn, rt),
            Insn::Pair { addr: Addr::Off(o), nontemporal: true, .. } if o == simm7 * pbytes,
            "pair no-allocate"
        );
        expect!(
            asm::ldst_pair(1, 0, asm::PAIR_OFFSET, 1, imm7, rt2, rn, rt),
            Insn::Pair { load: true, bytes: 4, signed: true, addr: Addr::Off(o), .. } if o == simm7 * 4,
            "ldpsw"
        );
        let o0 = r(&mut s, 2);
        expect!(
            asm::ldst_ordered(size, l, o0, 31, 31, rn, rt),
            Insn::LdSt { op, bytes, addr: Addr::Base, rn: a, rt: b, .. }
                if (op == MemOp::Load) == (l == 1) && bytes as u32 == 1 << size && (a as u32, b as u32) == (rn, rt),
            "ordered"
        );
        expect!(
            asm::ldst_rcpc_unscaled(size, 0, imm9, rn, rt),
            Insn::LdSt { op: MemOp::Store, addr: Addr::Off(i), .. } if i == simm9,
            "stlur"
        );
        // branches
        let imm26 = r(&mut s, 1 << 26);
        let simm26 = ((imm26 << 6) as i32 >> 6) as i64 * 4;
        expect!(asm::b_imm(op, imm26), Insn::B { link, off } if link as u32 == op && off == simm26, "b/bl");
        let cond = r(&mut s, 16);
        expect!(asm::b_cond(imm19, cond), Insn::BCond { cond: c, off } if c as u32 == cond && off == simm19, "b.cond");
        expect!(
            asm::cbz(sf, op, imm19, rt),
            Insn::Cbz { sf: a, nonzero: b, off, rt: c } if (a as u32, b as u32, c as u32) == (sf, op, rt) && off == simm19,
            "cbz"
        );
        let bit = r(&mut s, 64);
        let imm14 = r(&mut s, 1 << 14);
        let simm14 = ((imm14 << 18) as i32 >> 18) as i64 * 4;
        expect!(
            asm::tbz(bit, op, imm14, rt),
            Insn::Tbz { bit: a, nonzero: b, off, rt: c } if (a as u32, b as u32, c as u32) == (bit, op, rt) && off == simm14,
            "tbz"
        );
        let k = r(&mut s, 3);
        expect!(
            asm::br_reg(k, rn),
            Insn::BReg { kind, rn: a } if kind == [BReg::Br, BReg::Blr, BReg::Ret][k as usize] && a as u32 == rn,
            "br/blr/ret"
        );
    }
    n += 1;
    if a64_ref::decode(asm::nop()) != Decoded::Insn(Insn::Nop) {
        return Err("nop does not decode".into());
    }
    // shifts are in encoding order
    if (Shift::Lsl as u32, Shift::Lsr as u32, Shift::Asr as u32, Shift::Ror as u32) != (0, 1, 2, 3) {
        return Err("Shift discriminants".into());
    }
    Ok(n)
}

/// number of assertions evaluated: (reference vectors and identities, encoder/decoder round trips)
pub fn run() -> Result<(u64, u64), String> {
    Ok((a64_ref::self_test()?, round_trip()?))
}

/// Frozen floors (fraction of cases).  Every instruction class x addressing mode the lifter
/// accepts must be *compared* at least 30 times per 300 000 cases (quick = 600 000; measured at bring-up: the
/// rarest, SIMD&FP pair forms, reach ~200).  `subs|*` has no floor while the SUBS carry finding
/// is recorded: every SUBS case then ends as a known-finding hit (all other components of those
/// cases are still compared, see `attribute`), and known hits do not feed the class histogram.
pub fn floors() -> Vec<(&'static str, f64)> {
    const PER_CLASS: [&str; 152] = [
        "adds|extended", "adds|imm", "adds|shifted", "add|extended", "add|imm", "add|shifted",
        "b.cond|direct", "blr|indirect", "bl|direct", "br|indirect", "b|direct", "cbnz(w)|direct",
        "cbnz(x)|direct", "cbz(w)|direct", "cbz(x)|direct", "ldar(w)|base", "ldar(x)|base", "ldarb|base",
        "ldarh|base", "ldlar(w)|base", "ldlar(x)|base", "ldlarb|base", "ldlarh|base", "ldnp(simd)|offset",
        "ldnp(w)|offset", "ldnp(x)|offset", "ldp(simd)|offset", "ldp(simd)|post", "ldp(simd)|pre",
        "ldp(w)|offset", "ldp(w)|post", "ldp(w)|pre", "ldp(x)|offset", "ldp(x)|post", "ldp(x)|pre",
        "ldpsw|offset", "ldpsw|post", "ldpsw|pre", "ldr(simd)|post", "ldr(simd)|pre", "ldr(simd)|regoff",
        "ldr(simd)|uimm", "ldr(w)|post", "ldr(w)|pre", "ldr(w)|regoff", "ldr(w)|uimm", "ldr(x)|post",
        "ldr(x)|pre", "ldr(x)|regoff", "ldr(x)|uimm", "ldrb|post", "ldrb|pre", "ldrb|regoff", "ldrb|uimm",
        "ldrh|post", "ldrh|pre", "ldrh|regoff", "ldrh|uimm", "ldrsb(w)|post", "ldrsb(w)|pre",
        "ldrsb(w)|regoff", "ldrsb(w)|uimm", "ldrsb(x)|post", "ldrsb(x)|pre", "ldrsb(x)|regoff",
        "ldrsb(x)|uimm", "ldrsh(w)|post", "ldrsh(w)|pre", "ldrsh(w)|regoff", "ldrsh(w)|uimm", "ldrsh(x)|post",
        "ldrsh(x)|pre", "ldrsh(x)|regoff", "ldrsh(x)|uimm", "ldrsw|post", "ldrsw|pre", "ldrsw|regoff",
        "ldrsw|uimm", "ldur(simd)|offset", "ldur(w)|offset", "ldur(x)|offset", "ldurb|offset", "ldurh|offset",
        "ldursb(w)|offset", "ldursb(x)|offset", "ldursh(w)|offset", "ldursh(x)|offset", "ldursw|offset",
        "movn|wide", "movz|wide", "nop|-", "orr|bitmask", "orr|shifted", "prfm|literal", "prfm|regoff",
        "prfm|uimm", "prfum|offset", "ret|indirect", "stllr(w)|base", "stllr(x)|base", "stllrb|base",
        "stllrh|base", "stlr(w)|base", "stlr(x)|base", "stlrb|base", "stlrh|base", "stlur(w)|offset",
        "stlur(x)|offset", "stlurb|offset", "stlurh|offset", "stnp(simd)|offset", "stnp(w)|offset",
        "stnp(x)|offset", "stp(simd)|offset", "stp(simd)|post", "stp(simd)|pre", "stp(w)|offset",
        "stp(w)|post", "stp(w)|pre", "stp(x)|offset", "stp(x)|post", "stp(x)|pre", "str(simd)|post",
        "str(simd)|pre", "str(simd)|regoff", "str(simd)|uimm", "str(w)|post", "str(w)|pre", "str(w)|regoff",
        "str(w)|uimm", "str(x)|post", "str(x)|pre", "str(x)|regoff", "str(x)|uimm", "strb|post", "strb|pre",
        "strb|regoff", "strb|uimm", "strh|post", "strh|pre", "strh|regoff", "strh|uimm", "stur(simd)|offset",
        "stur(w)|offset", "stur(x)|offset", "sturb|offset", "sturh|offset", "sub|extended", "sub|imm",
        "sub|shifted", "tbnz|direct", "tbz|direct",
    ];
    let mut v: Vec<(&'static str, f64)> = PER_CLASS.iter().map(|c| (*c, 30.0 / 300_000.0)).collect();
    v.extend_from_slice(&[
        // accepted since falcon commit bae6727 (PC-relative literal loads no longer panic)
        ("ldr(w)|literal", 30.0 / 300_000.0),
        ("ldr(x)|literal", 30.0 / 300_000.0),
        ("ldrsw|literal", 30.0 / 300_000.0),
        ("ldr(simd)|literal", 30.0 / 300_000.0),
        ("compared", 0.60),
        ("flags:carry-out", 0.002),
        ("flags:signed-overflow", 0.0005),
        ("flags:zero-result", 0.0007),
        ("zr-destination-discarded", 0.02),
        ("w-destination", 0.10),
        ("uses-register-31", 0.15),
        ("branch-taken", 0.04),
        ("branch-not-taken", 0.04),
        ("access-in-window", 0.15),
    ]);
    v
}
