//! Run the result of `Translator::translate_block` with the reference IL interpreter
//! (`fv::refil::Machine`), architecture-neutral.
//!
//! A `BlockTranslationResult` is a list of per-instruction graphs plus `successors()`:
//! `(address, Option<guard>)`.  `run_block` executes the graphs in order from an IL state; an
//! executed `Branch` operation ends the run with its target as next pc (falcon emits `Branch`
//! only for indirect branches and calls; direct branches are successor entries); otherwise the
//! next pc is the address of the unique successor whose guard is absent or evaluates to 1 in the
//! final state.  An `Intrinsic` operation is reported, not executed.
//!
//! Reuse: `#[path = "../c03/run_il.rs"] mod run_il;`

#![allow(dead_code)]

use falcon::il;
use falcon::translator::BlockTranslationResult;
use fv::bv::Bv;
use fv::refil::{eval, Effect, Fault, FnView, Loc, Machine, RefMem, RefState, Scalars};

#[derive(Clone, Debug, PartialEq, Eq)]
pub enum End {
    /// control reached `next_pc`
    Next(u64),
    /// an `Intrinsic` was met (text); the state is the one before it
    Intrinsic(String),
    /// the IL could not be run to a next pc
    Stuck(StuckWhy),
}

#[derive(Clone, Debug, PartialEq, Eq)]
pub enum StuckWhy {
    /// the reference interpreter faulted inside an instruction graph
    Fault(Fault),
    /// no successor entry is enabled in the final state
    NoSuccessor,
    /// more than one successor entry is enabled: (addresses)
    ManySuccessors(Vec<u64>),
    /// an instruction graph did not terminate within the step budget
    StepBudget,
    /// the translation result has no instruction graphs
    Empty,
}

impl StuckWhy {
    pub fn kind(&self) -> String {
        match self {
            StuckWhy::Fault(f) => format!("fault-{}", f.kind()),
            StuckWhy::NoSuccessor => "no-successor".into(),
            StuckWhy::ManySuccessors(_) => "many-successors".into(),
            StuckWhy::StepBudget => "step-budget".into(),
            StuckWhy::Empty => "empty".into(),
        }
    }
}

#[derive(Clone, Debug)]
pub struct IlRun {
    pub end: End,
    pub state: RefState,
    /// IL operations executed
    pub steps: usize,
    /// (address, bits) of every Load / Store executed, in order, with is_store
    pub accesses: Vec<(u64, usize, bool)>,
    /// number of instruction graphs entered
    pub graphs: usize,
}

/// Build an IL state from (name, value, bits) triples and a byte map.
pub fn il_state(scalars: &[(String, u128, usize)], bytes: impl IntoIterator<Item = (u64, u8)>, big_endian: bool) -> RefState {
    let mut s = Scalars::new();
    for (n, v, b) in scalars {
        s.insert(n.clone(), Bv::from_u128(*v, *b));
    }
    let mut mem = RefMem::new(big_endian);
    for (a, b) in bytes {
        mem.bytes.insert(a, b);
    }
    RefState { scalars: s, mem }
}

pub fn scalar_u128(s: &Scalars, name: &str) -> Option<u128> {
    s.get(name).and_then(|v| v.to_u128())
}

/// Execute one instruction graph to its end.  `Ok(None)` = fell off the exit block normally,
/// `Ok(Some(target))` = left through a `Branch`.
fn run_graph(cfg: &il::ControlFlowGraph, state: RefState, budget: &mut usize, steps: &mut usize, accesses: &mut Vec<(u64, usize, bool)>) -> (RefState, Result<Option<u64>, End>) {
    let view = FnView::of_cfg(cfg);
    let exit = cfg.exit();
    let mut m = match Machine::new(&view, state.clone()) {
        Ok(m) => m,
        Err(f) => return (state, Err(End::Stuck(StuckWhy::Fault(f)))),
    };
    loop {
        if *budget == 0 {
            return (m.state, Err(End::Stuck(StuckWhy::StepBudget)));
        }
        *budget -= 1;
        let at = m.loc;
        match m.step() {
            Ok(Effect::Branch { target }) => {
                *steps += 1;
                return (m.state, Ok(Some(target)));
            }
            Ok(e) => {
                *steps += 1;
                match e {
                    Effect::Load { addr, value, .. } => accesses.push((addr, value.w, false)),
                    Effect::Store { addr, value } => accesses.push((addr, value.w, true)),
                    _ => {}
                }
            }
            Err(Fault::Intrinsic(text)) => return (m.state, Err(End::Intrinsic(text))),
            Err(Fault::NoEdge) => {
                // the operation itself succeeded (last_effect is set); leaving the exit block of
                // the instruction graph is the normal end
                let block = match at {
                    Loc::Instr(b, _) | Loc::Empty(b) => Some(b),
                    Loc::Edge(..) => None,
                };
                if m.last_effect.is_some() && block.is_some() && (exit.is_none() || block == exit) {
                    *steps += 1;
                    match &m.last_effect {
                        Some(Effect::Load { addr, value, .. }) => accesses.push((*addr, value.w, false)),
                        Some(Effect::Store { addr, value }) => accesses.push((*addr, value.w, true)),
                        _ => {}
                    }
                    return (m.state, Ok(None));
                }
                return (m.state, Err(End::Stuck(StuckWhy::Fault(Fault::NoEdge))));
            }
            Err(f) => return (m.state, Err(End::Stuck(StuckWhy::Fault(f)))),
        }
    }
}

/// The enabled successor entries in `state`.
pub fn enabled_successors(res: &BlockTranslationResult, state: &RefState) -> Result<Vec<u64>, Fault> {
    let mut v = Vec::new();
    for (addr, cond) in res.successors() {
        let on = match cond {
            None => true,
            Some(c) => {
                let b = eval(c, &state.scalars)?;
                if b.w != 1 {
                    return Err(Fault::Sort("successor guard is not 1 bit".into()));
                }
                b.is_one()
            }
        };
        if on {
            v.push(*addr);
        }
    }
    Ok(v)
}

pub fn run_block(res: &BlockTranslationResult, state: RefState, max_steps: usize) -> IlRun {
    let mut budget = max_steps;
    let mut steps = 0;
    let mut accesses = Vec::new();
    let mut state = state;
    let mut graphs = 0;
    if res.instructions().is_empty() {
        return IlRun { end: End::Stuck(StuckWhy::Empty), state, steps, accesses, graphs };
    }
    for (_addr, cfg) in res.instructions() {
        graphs += 1;
        let (st, r) = run_graph(cfg, state, &mut budget, &mut steps, &mut accesses);
        state = st;
        match r {
            Ok(None) => {}
            Ok(Some(target)) => return IlRun { end: End::Next(target), state, steps, accesses, graphs },
            Err(end) => return IlRun { end, state, steps, accesses, graphs },
        }
    }
    let end = match enabled_successors(res, &state) {
        Err(f) => End::Stuck(StuckWhy::Fault(f)),
        Ok(v) if v.is_empty() => End::Stuck(StuckWhy::NoSuccessor),
        Ok(v) if v.len() == 1 => End::Next(v[0]),
        Ok(v) => {
            // duplicates of one address are one destination
            if v.iter().all(|a| *a == v[0]) {
                End::Next(v[0])
            } else {
                End::Stuck(StuckWhy::ManySuccessors(v))
            }
        }
    };
    IlRun { end, state, steps, accesses, graphs }
}
