//! C03 — the AArch64 lifter agrees with the Arm architecture pseudocode.
//!
//! Domain: template-generated A64 words (every field random, register 31 in every position)
//! x states (boundary-biased X0-X30/SP, all 16 NZCV values, base registers steered into a
//! 512-byte scratch window) x {AArch64 (little-endian data), AArch64Eb}.
//! Oracle: `a64_ref` — a decoder/interpreter written from the Arm ARM, independent of bad64 and
//! falcon.  System under test: `translate_block` + the reference IL interpreter (`run_il`).
//! Relation: X0-X30, SP, N Z C V, every touched memory byte, next pc (and Vt for SIMD&FP
//! register loads).

mod a64_asm;
mod a64_ref;
mod run_il;

use a64_ref::{Addr, A64State, Decoded, Insn, MemOp, Stop};
use falcon::translator::aarch64::{AArch64, AArch64Eb};
use falcon::translator::{Options, OptionsBuilder, Translator};
use fv::engine::{self, guard, Failure, Obs, Spec, Tier};
use fv::tape::{from_tape, Tape};
use serde::{Deserialize, Serialize};

#[derive(Clone, Debug, Serialize, Deserialize)]
pub struct Case {
    word: u32,
    /// AArch64Eb (big-endian data) instead of AArch64
    eb: bool,
    /// lift with `unsupported_are_intrinsics`
    intrinsics: bool,
    pc: u64,
    x: Vec<u64>,
    sp: u64,
    nzcv: u8,
    /// memory is the total function byte(a) = fill_byte(mem_seed, a)
    mem_seed: u64,
    /// V registers: vreg[i] = hash(vseed, i)
    vseed: u64,
    /// base of the 512-byte scratch window the base registers were steered into
    win: u64,
}

const WINDOW: u64 = 512;
const WINS: [u64; 5] = [0x10000, 0x7fff_ff00, 0xffff_ff00, 0x7fff_ffff_ffff_ff00, 0xffff_8000_0000_0000];
const PCS: [u64; 5] = [0x1000, 0x40_0000, 0, 0xffff_fffc, 0x7fff_ffff_f000];

fn reg_value(t: &mut Tape) -> u64 {
    match t.below(4) {
        0 => t.biased(64) as u64,
        1 => ((t.biased(32) as u64) << 32) | t.biased(32) as u64,
        2 => t.biased(32) as u64,
        _ => t.u64(),
    }
}

fn vreg_value(vseed: u64, i: usize) -> u128 {
    let b = |k: u64| -> u128 {
        let mut v = 0u128;
        for j in 0..8u64 {
            v = (v << 8) | a64_ref::fill_byte(vseed ^ 0x5eed, (i as u64) * 64 + k * 8 + j) as u128;
        }
        v
    };
    (b(0) << 64) | b(1)
}

fn gen_case(t: &mut Tape) -> Case {
    let (_fam, mut word) = a64_asm::gen_word(t);
    if t.chance(1, 32) {
        // a neighbour of a template word: one bit flipped
        word ^= 1 << t.below(32);
    }
    let eb = t.chance(1, 2);
    let intrinsics = t.chance(1, 4);
    let pc = PCS[t.below(PCS.len())];
    let mut x: Vec<u64> = (0..31).map(|_| reg_value(t)).collect();
    let mut sp = reg_value(t);
    let nzcv = t.below(16) as u8;
    let mem_seed = t.raw() as u64;
    let vseed = t.raw() as u64;
    let win = WINS[t.below(WINS.len())];

    // steering, guided by the reference decoder
    if let Decoded::Insn(insn) = a64_ref::decode(word) {
        let xz = |x: &Vec<u64>, r: u8| if r == 31 { 0 } else { x[r as usize] };
        match insn {
            Insn::LdSt { addr, rn, bytes, .. } | Insn::Pair { addr, rn, bytes, .. } => {
                let total = if matches!(insn, Insn::Pair { .. }) { 2 * bytes as u64 } else { bytes as u64 };
                let off: Option<u64> = match addr {
                    Addr::Base | Addr::Post(_) => Some(0),
                    Addr::UImm(i) => Some(i),
                    Addr::Off(i) | Addr::Pre(i) => Some(i as u64),
                    Addr::Reg { rm, option, amount } => {
                        if rm == rn {
                            None
                        } else {
                            Some(a64_ref::extend_reg(xz(&x, rm), option, amount as u32, 64))
                        }
                    }
                    Addr::Literal(_) => None,
                };
                if let Some(off) = off {
                    if !t.chance(1, 10) {
                        let k = match t.below(5) {
                            0 => 0,
                            1 => WINDOW - total,
                            2 => (t.below((WINDOW / 16) as usize) as u64 * 16).min(WINDOW - total),
                            _ => t.below((WINDOW - total + 1) as usize) as u64,
                        };
                        let mut base = win.wrapping_add(k).wrapping_sub(off);
                        if rn == 31 {
                            if !t.chance(1, 12) {
                                base &= !15;
                            }
                            sp = base;
                        } else {
                            x[rn as usize] = base;
                        }
                    }
                }
            }
            Insn::AddSubShifted { rm, rn, .. } | Insn::AddSubExt { rm, rn, .. } => {
                if rm != rn && rm != 31 {
                    let a = if rn == 31 && matches!(insn, Insn::AddSubExt { .. }) { sp } else { xz(&x, rn) };
                    match t.below(8) {
                        1 => x[rm as usize] = a,
                        2 => x[rm as usize] = !a,
                        3 => x[rm as usize] = a.wrapping_neg(),
                        _ => {}
                    }
                }
            }
            Insn::Cbz { rt, .. } => {
                if rt != 31 {
                    match t.below(6) {
                        1 => x[rt as usize] = 0,
                        2 => x[rt as usize] &= 0xffff_ffff_0000_0000,
                        3 => x[rt as usize] &= 0x0000_0000_ffff_ffff,
                        _ => {}
                    }
                }
            }
            Insn::Tbz { rt, bit, .. } => {
                if rt != 31 {
                    match t.below(6) {
                        1 => x[rt as usize] = 1u64 << bit,
                        2 => x[rt as usize] = !(1u64 << bit),
                        3 => x[rt as usize] = 1u64 << (bit ^ 32),
                        _ => {}
                    }
                }
            }
            _ => {}
        }
    }
    Case { word, eb, intrinsics, pc, x, sp, nzcv, mem_seed, vseed, win }
}

fn initial_state(c: &Case) -> A64State {
    let mut st = A64State::new(c.eb);
    for i in 0..31 {
        st.x[i] = c.x.get(i).copied().unwrap_or(0);
    }
    st.sp = c.sp;
    st.set_nzcv(c.nzcv & 15);
    st.pc = c.pc;
    for i in 0..32 {
        st.vreg[i] = vreg_value(c.vseed, i);
    }
    st.mem.fill_seed = Some(c.mem_seed);
    st
}

fn survey() -> bool {
    std::env::var("FV_C03_SURVEY").map(|v| v == "1").unwrap_or(false)
}

/// which operand of `insn` register `r` is (first match), for signatures
fn role(insn: &Insn, r: usize) -> &'static str {
    let r = r as u8;
    let (rd, rn, rm, rt2): (Option<u8>, Option<u8>, Option<u8>, Option<u8>) = match *insn {
        Insn::AddSubImm { rn, rd, .. } => (Some(rd), Some(rn), None, None),
        Insn::AddSubShifted { rm, rn, rd, .. } | Insn::AddSubExt { rm, rn, rd, .. } | Insn::OrrShifted { rm, rn, rd, .. } => (Some(rd), Some(rn), Some(rm), None),
        Insn::MovWide { rd, .. } => (Some(rd), None, None, None),
        Insn::OrrImm { rn, rd, .. } => (Some(rd), Some(rn), None, None),
        Insn::LdSt { rn, rt, addr, simd, .. } => (
            if simd { None } else { Some(rt) },
            Some(rn),
            match addr {
                Addr::Reg { rm, .. } => Some(rm),
                _ => None,
            },
            None,
        ),
        Insn::Pair { rn, rt, rt2, simd, .. } => (if simd { None } else { Some(rt) }, Some(rn), None, if simd { None } else { Some(rt2) }),
        Insn::Cbz { rt, .. } | Insn::Tbz { rt, .. } => (Some(rt), None, None, None),
        Insn::BReg { rn, .. } => (None, Some(rn), None, None),
        _ => (None, None, None, None),
    };
    let is_mem = matches!(insn, Insn::LdSt { .. } | Insn::Pair { .. });
    if rd == Some(r) {
        if is_mem {
            "rt"
        } else {
            "rd"
        }
    } else if rt2 == Some(r) {
        "rt2"
    } else if rn == Some(r) {
        if is_mem {
            "base"
        } else {
            "rn"
        }
    } else if rm == Some(r) {
        "rm"
    } else if r == 30 {
        "x30"
    } else {
        "unrelated-reg"
    }
}

fn class_of(insn: &Insn) -> String {
    let mut m = insn.mnemonic().to_string();
    match *insn {
        Insn::LdSt { simd: true, .. } | Insn::Pair { simd: true, .. } => m.push_str("(simd)"),
        Insn::LdSt { op: MemOp::Load, signed: true, regsize, bytes, .. } if bytes < 4 => m.push_str(if regsize == 64 { "(x)" } else { "(w)" }),
        Insn::LdSt { op, signed: false, bytes, .. } if op != MemOp::Prefetch && bytes >= 4 => m.push_str(if bytes == 8 { "(x)" } else { "(w)" }),
        Insn::Pair { simd: false, signed: false, bytes, .. } => m.push_str(if bytes == 8 { "(x)" } else { "(w)" }),
        Insn::Cbz { sf, .. } => m.push_str(if sf { "(x)" } else { "(w)" }),
        _ => {}
    }
    format!("{}|{}", m, insn.mode())
}

/// bit mask of operand positions holding register 31
fn r31_mask(insn: &Insn) -> u8 {
    let b = |r: u8, k: u8| ((r == 31) as u8) << k;
    match *insn {
        Insn::AddSubImm { rn, rd, .. } | Insn::OrrImm { rn, rd, .. } => b(rd, 0) | b(rn, 1),
        Insn::AddSubShifted { rm, rn, rd, .. } | Insn::AddSubExt { rm, rn, rd, .. } | Insn::OrrShifted { rm, rn, rd, .. } => b(rd, 0) | b(rn, 1) | b(rm, 2),
        Insn::MovWide { rd, .. } => b(rd, 0),
        Insn::LdSt { rn, rt, addr, .. } => {
            b(rt, 0)
                | b(rn, 1)
                | match addr {
                    Addr::Reg { rm, .. } => b(rm, 2),
                    _ => 0,
                }
        }
        Insn::Pair { rn, rt, rt2, .. } => b(rt, 0) | b(rn, 1) | b(rt2, 3),
        Insn::Cbz { rt, .. } | Insn::Tbz { rt, .. } => b(rt, 0),
        Insn::BReg { rn, .. } => b(rn, 1),
        _ => 0,
    }
}

fn detail_key(insn: &Insn) -> (u8, u8, u8) {
    match *insn {
        Insn::AddSubImm { sf, sh, .. } => (sf as u8, sh as u8, 0),
        Insn::AddSubShifted { sf, shift, amount, .. } => (sf as u8, shift as u8, (amount == 0) as u8),
        Insn::AddSubExt { sf, option, amount, .. } => (sf as u8, option, amount),
        Insn::MovWide { sf, opc, hw, .. } => (sf as u8, opc, hw),
        Insn::OrrShifted { sf, shift, .. } => (sf as u8, shift as u8, 0),
        Insn::OrrImm { sf, .. } => (sf as u8, 0, 0),
        Insn::LdSt { bytes, regsize, signed, addr, .. } => (
            bytes,
            regsize,
            signed as u8
                | match addr {
                    Addr::Reg { option, amount, .. } => option << 1 | ((amount != 0) as u8) << 4,
                    _ => 0,
                },
        ),
        Insn::Pair { bytes, signed, nontemporal, load, .. } => (bytes, signed as u8, nontemporal as u8 | (load as u8) << 1),
        Insn::B { link, .. } => (link as u8, 0, 0),
        Insn::BCond { cond, .. } => (cond, 0, 0),
        Insn::Cbz { sf, nonzero, .. } => (sf as u8, nonzero as u8, 0),
        Insn::Tbz { bit, nonzero, .. } => (bit, nonzero as u8, 0),
        Insn::BReg { kind, .. } => (kind as u8, 0, 0),
        Insn::Nop => (0, 0, 0),
    }
}

fn options(intrinsics: bool) -> Options {
    OptionsBuilder::new().unsupported_are_intrinsics(intrinsics).build()
}

fn check(case: &Case, obs: &mut Obs) -> Result<(), Failure> {
    let dec = a64_ref::decode(case.word);
    let insn = match dec {
        Decoded::Insn(i) => Some(i),
        _ => None,
    };
    let class = match (&insn, dec) {
        (Some(i), _) => class_of(i),
        (None, Decoded::Undefined(why)) => format!("(ref-undefined: {})", why),
        (None, Decoded::Unpredictable(_)) => {
            obs.exclude("constrained-unpredictable");
            obs.class("excluded:constrained-unpredictable");
            return Ok(());
        }
        _ => "(ref-unmodelled)".to_string(),
    };

    // 1. reference
    let st0 = initial_state(case);
    let mut ref_st = st0.clone();
    let mut ref_result = None;
    if let Some(i) = &insn {
        match ref_st.step(i) {
            Ok(info) => ref_result = Some(info),
            Err(stop) => {
                let why = match stop {
                    Stop::Unpredictable(_) => "constrained-unpredictable",
                    Stop::SpAlignment => "sp-alignment",
                    Stop::AddressWrap => "address-wraps",
                    Stop::Unmapped(_) => "ref-unmapped",
                };
                obs.exclude(why);
                obs.class(&format!("excluded:{}", why));
                return Ok(());
            }
        }
    }

    // 2. lift
    let bytes = case.word.to_le_bytes();
    let opts = options(case.intrinsics);
    let lifted = guard(|| {
        if case.eb {
            AArch64Eb::new().translate_block(&bytes, case.pc, &opts)
        } else {
            AArch64::new().translate_block(&bytes, case.pc, &opts)
        }
    });
    let res = match lifted {
        Err(_pi) => {
            // lifting totality is property C05's; a panic is not "accepted"
            obs.exclude("lifter-panic");
            obs.count(&format!("lifter-panic:{}", class), 1);
            obs.class("outcome:lifter-panic");
            return Ok(());
        }
        Ok(Err(_e)) => {
            obs.exclude("not-accepted");
            obs.count(&format!("not-accepted:{}", class), 1);
            obs.class("outcome:not-accepted");
            return Ok(());
        }
        Ok(Ok(r)) => r,
    };

    // 3. run the IL from the same state; memory = the bytes the reference read
    let il0 = run_il::il_state(&st0.il_scalars(), ref_st.mem.materialised.iter().map(|(a, b)| (*a, *b)), case.eb);
    let run = match guard(|| run_il::run_block(&res, il0, 10_000)) {
        Ok(r) => r,
        Err(pi) => fv::fail!(format!("C03|{}|il-interpreter-panic", class), "running the IL panicked: {} ({}:{})", pi.msg, pi.file, pi.line),
    };
    let next_pc = match &run.end {
        run_il::End::Intrinsic(_) => {
            obs.exclude("not-accepted");
            obs.count(&format!("intrinsic:{}", class), 1);
            obs.class("outcome:intrinsic");
            return Ok(());
        }
        run_il::End::Next(pc) => Some(*pc),
        run_il::End::Stuck(_) => None,
    };
    let (insn, info) = match (insn, ref_result) {
        (Some(i), Some(info)) => (i, info),
        _ => {
            // accepted by the lifter, outside the reference model
            let what = if matches!(dec, Decoded::Undefined(_)) { "accepted_undefined_encoding" } else { "unmodelled_accepted" };
            obs.exclude(what);
            obs.count(&format!("{}:{}", what, class), 1);
            obs.class(&format!("outcome:{}", what));
            if obs.want_sample() {
                obs.sample(render(case));
            }
            return Ok(());
        }
    };

    // 4. compare
    let mut diffs: Vec<(String, String)> = Vec::new(); // (what, detail)
    if let run_il::End::Stuck(why) = &run.end {
        let what = match why {
            run_il::StuckWhy::Fault(fv::refil::Fault::Unmapped(a)) => {
                diffs.push(("il-access-outside-reference".into(), format!("the IL accessed 0x{:x}, which the pseudocode does not read", a)));
                None
            }
            other => Some(format!("il-stuck-{}", other.kind())),
        };
        if let Some(w) = what {
            diffs.push((w, format!("the lifted IL cannot be run to a next pc: {:?}", why)));
        }
    }
    let sc = &run.state.scalars;
    let get = |name: &str| run_il::scalar_u128(sc, name);
    if diffs.is_empty() {
        if let Some(pc) = next_pc {
            if pc != ref_st.pc {
                diffs.push(("next-pc".into(), format!("next pc 0x{:x}, pseudocode 0x{:x}", pc, ref_st.pc)));
            }
        }
        for i in 0..31 {
            let got = get(&format!("x{}", i));
            if got != Some(ref_st.x[i] as u128) {
                diffs.push((role(&insn, i).to_string(), format!("x{} = {}, pseudocode 0x{:x} (before 0x{:x})", i, fmt_opt(got), ref_st.x[i], st0.x[i])));
            }
        }
        if get("sp") != Some(ref_st.sp as u128) {
            diffs.push(("sp".into(), format!("sp = {}, pseudocode 0x{:x} (before 0x{:x})", fmt_opt(get("sp")), ref_st.sp, st0.sp)));
        }
        for (name, want) in [("n", ref_st.n), ("z", ref_st.z), ("c", ref_st.c), ("v", ref_st.v)] {
            if get(name) != Some(want as u128) {
                diffs.push((format!("flag-{}", name), format!("{} = {}, pseudocode {}", name, fmt_opt(get(name)), want as u8)));
            }
        }
        for i in 0..32 {
            let got = get(&format!("v{}", i));
            if got != Some(ref_st.vreg[i]) {
                diffs.push(("vt".into(), format!("v{} = {}, pseudocode 0x{:x}", i, fmt_opt(got), ref_st.vreg[i])));
            }
        }
        // memory: every byte either side knows about
        let ilm = &run.state.mem.bytes;
        let mut bad = 0;
        for (a, b) in &ref_st.mem.bytes {
            let g = ilm.get(a).copied();
            if g != Some(*b) && bad < 4 {
                bad += 1;
                diffs.push(("mem".into(), format!("byte at 0x{:x} = {:x?}, pseudocode 0x{:02x}", a, g, b)));
            }
        }
        for (a, b) in ilm {
            if !ref_st.mem.bytes.contains_key(a) && bad < 4 {
                bad += 1;
                diffs.push(("mem".into(), format!("byte at 0x{:x} = 0x{:02x} written by the IL, untouched by the pseudocode", a, b)));
            }
        }
    }
    if !diffs.is_empty() {
        let all: Vec<String> = diffs.iter().map(|d| d.1.clone()).collect();
        let attributed = attribute(&insn, &mut diffs, &st0, &ref_st, &run, next_pc);
        // the first unexplained difference, in a fixed priority order, names the signature
        const ORDER: [&str; 16] = ["il-access-outside-reference", "mem", "rt", "rt2", "rd", "vt", "base", "sp", "flag-c", "flag-v", "flag-n", "flag-z", "next-pc", "x30", "rn", "rm"];
        let sig = if diffs.is_empty() {
            attributed.unwrap()
        } else {
            let what = ORDER.iter().find(|o| diffs.iter().any(|d| d.0 == **o)).map(|s| s.to_string()).unwrap_or_else(|| diffs[0].0.clone());
            format!("C03|{}|{}", class, what)
        };
        if survey() {
            obs.count(&format!("mismatch:{}", sig), 1);
            return Ok(());
        }
        fv::fail!(sig, "{} ({}): {}", insn, if case.eb { "AArch64Eb" } else { "AArch64" }, all.join("; "));
    }

    // 5. evidence
    obs.class(&class);
    obs.class("compared");
    obs.count("il-operations", run.steps as u64);
    let flag_class = info.flags.map(|(c, v, z)| (c as u8) | (v as u8) << 1 | (z as u8) << 2);
    if let Some((c, v, z)) = info.flags {
        if c {
            obs.class("flags:carry-out");
        }
        if v {
            obs.class("flags:signed-overflow");
        }
        if z {
            obs.class("flags:zero-result");
        }
    }
    if info.discarded {
        obs.class("zr-destination-discarded");
    }
    if info.wrote_w {
        obs.class("w-destination");
    }
    if r31_mask(&insn) != 0 {
        obs.class("uses-register-31");
    }
    match info.taken {
        Some(true) => obs.class("branch-taken"),
        Some(false) => obs.class("branch-not-taken"),
        None => {}
    }
    let in_window = info.accesses.iter().all(|(a, n, _)| *a >= case.win && a.wrapping_add(*n as u64) <= case.win + WINDOW);
    if !info.accesses.is_empty() && in_window {
        obs.class("access-in-window");
    }
    obs.nontrivial(&(class.clone(), detail_key(&insn), r31_mask(&insn), flag_class, info.taken, case.eb));
    if obs.want_sample() {
        obs.sample(render(case));
    }
    Ok(())
}

/// Attribute differences to a root cause that can be *named from the observation alone* (never
/// from falcon's source), remove exactly the differences that cause explains, and return its
/// signature.  Whatever remains in `diffs` is not explained and is reported on its own, so a
/// recorded finding cannot mask a second defect in the same instruction.
fn attribute(insn: &Insn, diffs: &mut Vec<(String, String)>, st0: &A64State, ref_st: &A64State, run: &run_il::IlRun, next_pc: Option<u64>) -> Option<String> {
    let sc = &run.state.scalars;
    let get = |name: &str| run_il::scalar_u128(sc, name);
    let same = |name: &str, b: bool| get(name) == Some(b as u128);
    let has = |diffs: &Vec<(String, String)>, w: &str| diffs.iter().any(|d| d.0 == w);
    let flag_diffs = diffs.iter().filter(|d| d.0.starts_with("flag-")).count();
    let (setflags, sub, aliased) = match *insn {
        Insn::AddSubImm { setflags, rn, rd, sub, .. } => (setflags, sub, rd != 31 && rd == rn),
        Insn::AddSubShifted { setflags, rm, rn, rd, sub, .. } => (setflags, sub, rd != 31 && (rd == rn || rd == rm)),
        Insn::AddSubExt { setflags, rm, rn, rd, sub, .. } => (setflags, sub, rd != 31 && (rd == rn || rd == rm)),
        _ => (false, false, false),
    };
    if setflags && flag_diffs > 0 {
        // destination is also a source: the flags are those of the operation applied to the
        // already-updated register (test: run the reference once more on its own result; for
        // SUBS the carry may additionally be complemented)
        let overwritten_source = || -> bool {
            if !aliased {
                return false;
            }
            let mut again = ref_st.clone();
            again.pc = st0.pc;
            again.step(insn).is_ok() && same("n", again.n) && same("z", again.z) && same("v", again.v) && (same("c", again.c) || (sub && same("c", !again.c)))
        };
        // SUBS: C is exactly the complement of the architectural carry
        if sub && has(diffs, "flag-c") && same("c", !ref_st.c) {
            if flag_diffs > 1 && overwritten_source() {
                diffs.retain(|d| !d.0.starts_with("flag-"));
                return Some("C03|adds-subs|flags|computed-from-overwritten-source".into());
            }
            // only C is attributed; any other flag difference stays unexplained
            diffs.retain(|d| d.0 != "flag-c");
            return Some("C03|subs|flag-c|borrow-instead-of-not-borrow".into());
        }
        if overwritten_source() {
            diffs.retain(|d| !d.0.starts_with("flag-"));
            return Some("C03|adds-subs|flags|computed-from-overwritten-source".into());
        }
    }
    if let Insn::BReg { kind, rn } = *insn {
        if has(diffs, "next-pc") {
            if kind == a64_ref::BReg::Ret && rn != 30 && next_pc == Some(st0.x[30]) {
                diffs.retain(|d| d.0 != "next-pc");
                return Some("C03|ret|next-pc|target-read-from-x30".into());
            }
            if kind == a64_ref::BReg::Blr && rn == 30 && next_pc == Some(st0.pc.wrapping_add(4)) {
                diffs.retain(|d| d.0 != "next-pc");
                return Some("C03|blr|next-pc|target-read-after-link-write".into());
            }
        }
    }
    None
}

fn fmt_opt(v: Option<u128>) -> String {
    match v {
        Some(v) => format!("0x{:x}", v),
        None => "<undefined>".into(),
    }
}

fn render(c: &Case) -> String {
    let dis = match a64_ref::decode(c.word) {
        Decoded::Insn(i) => format!("{}", i),
        Decoded::Undefined(w) => format!("<undefined: {}>", w),
        Decoded::Unpredictable(w) => format!("<constrained unpredictable: {}>", w),
        Decoded::Unmodelled => "<outside the reference model>".into(),
    };
    let mut s = format!(
        "word 0x{:08x} [{}] at pc 0x{:x}, {} data{}; nzcv={:04b} sp=0x{:x}",
        c.word,
        dis,
        c.pc,
        if c.eb { "big-endian (AArch64Eb)" } else { "little-endian (AArch64)" },
        if c.intrinsics { ", unsupported_are_intrinsics" } else { "" },
        c.nzcv,
        c.sp
    );
    for (i, v) in c.x.iter().enumerate() {
        if *v != 0 {
            s.push_str(&format!(" x{}=0x{:x}", i, v));
        }
    }
    s.push_str(&format!("; memory byte(a)=fill_byte({:#x},a), v[i] from seed {:#x}, window 0x{:x}", c.mem_seed, c.vseed, c.win));
    s
}

fn simplify(c: &Case) -> Vec<Case> {
    let mut v = Vec::new();
    for i in 0..c.x.len() {
        if c.x[i] != 0 {
            let mut d = c.clone();
            d.x[i] = 0;
            v.push(d);
        }
    }
    if c.sp != 0 {
        let mut d = c.clone();
        d.sp = 0;
        v.push(d);
    }
    if c.nzcv != 0 {
        let mut d = c.clone();
        d.nzcv = 0;
        v.push(d);
    }
    if c.eb {
        let mut d = c.clone();
        d.eb = false;
        v.push(d);
    }
    if c.intrinsics {
        let mut d = c.clone();
        d.intrinsics = false;
        v.push(d);
    }
    if c.pc != 0x1000 {
        let mut d = c.clone();
        d.pc = 0x1000;
        v.push(d);
    }
    if c.mem_seed != 0 {
        let mut d = c.clone();
        d.mem_seed = 0;
        v.push(d);
    }
    v
}

mod selfcheck;

/// development aid: `c03 --explain <hexword> [pc]` prints the reference decoding and the lifted IL
fn explain(word: u32, pc: u64) {
    println!("word {:#010x}: reference decode = {:?}", word, a64_ref::decode(word));
    if let Decoded::Insn(i) = a64_ref::decode(word) {
        println!("  {}", i);
    }
    for intr in [false, true] {
        let r = guard(|| AArch64::new().translate_block(&word.to_le_bytes(), pc, &options(intr)));
        match r {
            Err(pi) => println!("intrinsics={}: PANIC {} ({}:{})", intr, pi.msg, pi.file, pi.line),
            Ok(Err(e)) => println!("intrinsics={}: Err {}", intr, e),
            Ok(Ok(res)) => {
                println!("intrinsics={}: Ok, length {}", intr, res.length());
                for (a, g) in res.instructions() {
                    println!("  graph at {:#x}:\n{}", a, g);
                }
                for (a, c) in res.successors() {
                    println!("  successor {:#x} if {}", a, c.as_ref().map(|c| format!("{}", c)).unwrap_or_else(|| "always".into()));
                }
            }
        }
    }
}

/// libFuzzer entry: the input bytes are the entropy tape (little-endian u32 words); same
/// generator, same oracle as the proptest tiers.
#[allow(dead_code)]
pub fn fuzz_bytes(data: &[u8]) {
    let tape = fv::tape::words_from_bytes(data, 320);
    let case = gen_case(&mut Tape::new(&tape));
    engine::fuzz_one("C03", &case, &render, &check);
}

#[allow(dead_code)]
fn main() -> std::process::ExitCode {
    let argv: Vec<String> = std::env::args().collect();
    if argv.len() >= 3 && argv[1] == "--explain" {
        let w = u32::from_str_radix(argv[2].trim_start_matches("0x"), 16).expect("hex word");
        let pc = argv.get(3).map(|s| u64::from_str_radix(s.trim_start_matches("0x"), 16).expect("hex pc")).unwrap_or(0x1000);
        explain(w, pc);
        return std::process::ExitCode::SUCCESS;
    }
    if argv.len() >= 2 && argv[1] == "--selfcheck" {
        let t = std::time::Instant::now();
        println!("{:?} in {:?}", selfcheck::run(), t.elapsed());
        return std::process::ExitCode::SUCCESS;
    }
    if let Err(e) = selfcheck::run() {
        eprintln!("HARNESS-ERROR property=C03 start-up self-check failed: {}", e);
        println!("HARNESS-ERROR property=C03 start-up self-check failed: {}", e);
        return std::process::ExitCode::from(3);
    }
    let mut spec = Spec::new(
        "C03",
        "one template-generated A64 word (20 families, every field random, register 31 over-represented in every position, 1/32 with one bit flipped) x one state (boundary-biased X0-X30/SP, all 16 NZCV, base register steered into a 512-byte window, memory a total pseudo-random function) x {AArch64, AArch64Eb} x {default, unsupported_are_intrinsics}; lifted with translate_block, the IL run by the reference IL interpreter, compared with an Arm-ARM reference interpreter on X0-X30, SP, NZCV, V0-V31, every touched byte and the next pc. Non-trivial = the lifter accepted the word (no error, no panic, no intrinsic), the reference models it and prescribes one outcome (not CONSTRAINED UNPREDICTABLE, no SP-alignment dependence) and the comparison ran; distinct = (mnemonic+size, addressing mode/operand form, shift/extend kind and amount class, which operands are register 31, flag-boundary class {carry-out, signed overflow, zero}, branch taken, endianness)",
        Box::new(|_t: Tier| from_tape(320, gen_case)),
        |t| t.pick(2_400_000, 60_000_000),
        check,
    );
    spec.render = render;
    spec.simplify = Some(simplify);
    spec.crash_sig = |c: &Case| format!("C03|word-{:08x}", c.word);
    spec.assumptions = vec![
        "the lifted IL is given meaning by fv::refil (Bv arithmetic, byte-map memory with the translator's data endianness), not by falcon::executor (that is C07's subject)".into(),
        "data endianness: AArch64 = little, AArch64Eb = big; instruction fetch is little-endian in both".into(),
        "CONSTRAINED UNPREDICTABLE encodings (write-back with Rn == Rt/Rt2 and Rn != 31, load pair with Rt == Rt2, ordered forms with SBO fields != 31) and accesses with SP as base and SP not 16-byte aligned have no single architectural outcome and are excluded".into(),
        "accesses that run past 2^64 are excluded (the IL address space does not wrap)".into(),
        "a lifter panic or error is 'not accepted' (lifting totality is C05's property); such cases are counted per class under counts.lifter-panic:* / not-accepted:*".into(),
    ];
    spec.floors = selfcheck::floors();
    engine::main(spec)
}
