//! `Bv`: fixed-width bit-vectors defined from the mathematical integers.  This is the reference
//! algebra for IL expressions; it never calls falcon.  `self_test()` checks it exhaustively at
//! widths 1..=4 against a second, naive model on `i64`.

use num_bigint::{BigInt, BigUint};
use num_traits::{One, ToPrimitive, Zero};
use serde::{Deserialize, Serialize};
use std::fmt;

#[derive(Clone, PartialEq, Eq, Hash, PartialOrd, Ord, Serialize, Deserialize)]
pub struct Bv {
    pub v: BigUint,
    pub w: usize,
}

impl fmt::Debug for Bv {
    fn fmt(&self, f: &mut fmt::Formatter) -> fmt::Result {
        write!(f, "0x{:X}:{}", self.v, self.w)
    }
}
impl fmt::Display for Bv {
    fn fmt(&self, f: &mut fmt::Formatter) -> fmt::Result {
        write!(f, "0x{:X}:{}", self.v, self.w)
    }
}

#[derive(Clone, Debug, PartialEq, Eq)]
pub enum BvErr {
    Sort,
    DivZero,
}

fn pow2(w: usize) -> BigUint {
    BigUint::one() << w
}

impl Bv {
    pub fn new(v: BigUint, w: usize) -> Bv {
        assert!(w > 0, "Bv width must be positive");
        Bv { v: v % pow2(w), w }
    }
    pub fn from_u64(v: u64, w: usize) -> Bv {
        Bv::new(BigUint::from(v), w)
    }
    pub fn from_u128(v: u128, w: usize) -> Bv {
        Bv::new(BigUint::from(v), w)
    }
    /// wrap a mathematical integer into width w
    pub fn from_int(i: &BigInt, w: usize) -> Bv {
        let m = BigInt::from(pow2(w));
        let mut r = i % &m;
        if r < BigInt::zero() {
            r += &m;
        }
        Bv {
            v: r.to_biguint().unwrap(),
            w,
        }
    }
    pub fn zero(w: usize) -> Bv {
        Bv::from_u64(0, w)
    }
    pub fn ones(w: usize) -> Bv {
        Bv {
            v: pow2(w) - BigUint::one(),
            w,
        }
    }
    pub fn bool(b: bool) -> Bv {
        Bv::from_u64(b as u64, 1)
    }
    pub fn is_one(&self) -> bool {
        self.v.is_one()
    }
    pub fn is_zero(&self) -> bool {
        self.v.is_zero()
    }
    pub fn unsigned(&self) -> BigInt {
        BigInt::from(self.v.clone())
    }
    pub fn signed(&self) -> BigInt {
        if self.msb() {
            BigInt::from(self.v.clone()) - BigInt::from(pow2(self.w))
        } else {
            BigInt::from(self.v.clone())
        }
    }
    pub fn msb(&self) -> bool {
        self.v.bit((self.w - 1) as u64)
    }
    pub fn to_u64(&self) -> Option<u64> {
        self.v.to_u64()
    }
    pub fn to_u128(&self) -> Option<u128> {
        self.v.to_u128()
    }
    pub fn low_u64(&self) -> u64 {
        (&self.v % pow2(64)).to_u64().unwrap()
    }
    fn same(&self, o: &Bv) -> Result<(), BvErr> {
        if self.w == o.w {
            Ok(())
        } else {
            Err(BvErr::Sort)
        }
    }
    pub fn add(&self, o: &Bv) -> Result<Bv, BvErr> {
        self.same(o)?;
        Ok(Bv::from_int(&(self.unsigned() + o.unsigned()), self.w))
    }
    pub fn sub(&self, o: &Bv) -> Result<Bv, BvErr> {
        self.same(o)?;
        Ok(Bv::from_int(&(self.unsigned() - o.unsigned()), self.w))
    }
    pub fn mul(&self, o: &Bv) -> Result<Bv, BvErr> {
        self.same(o)?;
        Ok(Bv::from_int(&(self.unsigned() * o.unsigned()), self.w))
    }
    pub fn divu(&self, o: &Bv) -> Result<Bv, BvErr> {
        self.same(o)?;
        if o.is_zero() {
            return Err(BvErr::DivZero);
        }
        Ok(Bv::new(&self.v / &o.v, self.w))
    }
    pub fn modu(&self, o: &Bv) -> Result<Bv, BvErr> {
        self.same(o)?;
        if o.is_zero() {
            return Err(BvErr::DivZero);
        }
        Ok(Bv::new(&self.v % &o.v, self.w))
    }
    /// signed division truncating toward zero
    pub fn divs(&self, o: &Bv) -> Result<Bv, BvErr> {
        self.same(o)?;
        if o.is_zero() {
            return Err(BvErr::DivZero);
        }
        let (a, b) = (self.signed(), o.signed());
        // |q| = |a| / |b| ; sign = sign(a)*sign(b)  (definition, independent of BigInt's `/`)
        let qa = BigInt::from(a.magnitude() / b.magnitude());
        let neg = (a < BigInt::zero()) != (b < BigInt::zero());
        Ok(Bv::from_int(&(if neg { -qa } else { qa }), self.w))
    }
    /// signed remainder, sign follows the dividend
    pub fn mods(&self, o: &Bv) -> Result<Bv, BvErr> {
        self.same(o)?;
        if o.is_zero() {
            return Err(BvErr::DivZero);
        }
        let (a, b) = (self.signed(), o.signed());
        let ra = BigInt::from(a.magnitude() % b.magnitude());
        Ok(Bv::from_int(
            &(if a < BigInt::zero() { -ra } else { ra }),
            self.w,
        ))
    }
    pub fn and(&self, o: &Bv) -> Result<Bv, BvErr> {
        self.same(o)?;
        Ok(Bv::new(&self.v & &o.v, self.w))
    }
    pub fn or(&self, o: &Bv) -> Result<Bv, BvErr> {
        self.same(o)?;
        Ok(Bv::new(&self.v | &o.v, self.w))
    }
    pub fn xor(&self, o: &Bv) -> Result<Bv, BvErr> {
        self.same(o)?;
        Ok(Bv::new(&self.v ^ &o.v, self.w))
    }
    /// shift amount as usize when it is < width
    fn amount(&self, o: &Bv) -> Option<usize> {
        match o.v.to_usize() {
            Some(n) if n < self.w => Some(n),
            _ => None,
        }
    }
    pub fn shl(&self, o: &Bv) -> Result<Bv, BvErr> {
        self.same(o)?;
        Ok(match self.amount(o) {
            Some(n) => Bv::new(&self.v << n, self.w),
            None => Bv::zero(self.w),
        })
    }
    pub fn shr(&self, o: &Bv) -> Result<Bv, BvErr> {
        self.same(o)?;
        Ok(match self.amount(o) {
            Some(n) => Bv::new(&self.v >> n, self.w),
            None => Bv::zero(self.w),
        })
    }
    /// arithmetic shift right: floor(signed / 2^n); saturates to 0 / all-ones once n >= w
    pub fn ashr(&self, o: &Bv) -> Result<Bv, BvErr> {
        self.same(o)?;
        Ok(match self.amount(o) {
            Some(n) => {
                // floor division of the signed value by 2^n
                let s = self.signed();
                let d = BigInt::from(pow2(n));
                let mut q = &s / &d;
                if (&s % &d) < BigInt::zero() {
                    q -= 1;
                }
                Bv::from_int(&q, self.w)
            }
            None => {
                if self.msb() {
                    Bv::ones(self.w)
                } else {
                    Bv::zero(self.w)
                }
            }
        })
    }
    pub fn cmpeq(&self, o: &Bv) -> Result<Bv, BvErr> {
        self.same(o)?;
        Ok(Bv::bool(self.v == o.v))
    }
    pub fn cmpneq(&self, o: &Bv) -> Result<Bv, BvErr> {
        self.same(o)?;
        Ok(Bv::bool(self.v != o.v))
    }
    pub fn cmpltu(&self, o: &Bv) -> Result<Bv, BvErr> {
        self.same(o)?;
        Ok(Bv::bool(self.v < o.v))
    }
    pub fn cmplts(&self, o: &Bv) -> Result<Bv, BvErr> {
        self.same(o)?;
        Ok(Bv::bool(self.signed() < o.signed()))
    }
    pub fn zext(&self, bits: usize) -> Result<Bv, BvErr> {
        if bits <= self.w {
            return Err(BvErr::Sort);
        }
        Ok(Bv::new(self.v.clone(), bits))
    }
    pub fn sext(&self, bits: usize) -> Result<Bv, BvErr> {
        if bits <= self.w {
            return Err(BvErr::Sort);
        }
        Ok(Bv::from_int(&self.signed(), bits))
    }
    pub fn trun(&self, bits: usize) -> Result<Bv, BvErr> {
        if bits >= self.w || bits == 0 {
            return Err(BvErr::Sort);
        }
        Ok(Bv::new(self.v.clone(), bits))
    }
    /// rotate left by s (0 <= s <= w)
    pub fn rotl(&self, s: usize) -> Bv {
        let s = s % self.w;
        if s == 0 {
            return self.clone();
        }
        Bv::new((&self.v << s) | (&self.v >> (self.w - s)), self.w)
    }
    /// little-endian bytes (width must be a multiple of 8)
    pub fn le_bytes(&self) -> Vec<u8> {
        let n = self.w / 8;
        let mut b = self.v.to_bytes_le();
        b.resize(n, 0);
        b
    }
    pub fn from_le_bytes(b: &[u8]) -> Bv {
        Bv::new(BigUint::from_bytes_le(b), b.len() * 8)
    }
    pub fn from_be_bytes(b: &[u8]) -> Bv {
        Bv::new(BigUint::from_bytes_be(b), b.len() * 8)
    }
    pub fn be_bytes(&self) -> Vec<u8> {
        let mut b = self.le_bytes();
        b.reverse();
        b
    }
    // conversions to and from falcon constants (data only)
    pub fn to_constant(&self) -> falcon::il::Constant {
        falcon::il::Constant::new_big(self.v.clone(), self.w)
    }
    pub fn from_constant(c: &falcon::il::Constant) -> Bv {
        Bv {
            v: c.value().clone(),
            w: c.bits(),
        }
    }
}

/// Exhaustive comparison of `Bv` against a naive i64 model at widths 1..=4.
pub fn self_test() -> Result<u64, String> {
    let mut n = 0u64;
    for w in 1..=4usize {
        let m = 1i64 << w;
        let sgn = |x: i64| if x >= m / 2 { x - m } else { x };
        let wrap = |x: i64| ((x % m) + m) % m;
        for a in 0..m {
            for b in 0..m {
                let (x, y) = (Bv::from_u64(a as u64, w), Bv::from_u64(b as u64, w));
                let chk = |name: &str, got: Result<Bv, BvErr>, want: Option<i64>| -> Result<(), String> {
                    let g = got.ok().map(|v| v.to_u64().unwrap() as i64);
                    if g != want {
                        return Err(format!("Bv self-test {} w={} a={} b={}: {:?} != {:?}", name, w, a, b, g, want));
                    }
                    Ok(())
                };
                chk("add", x.add(&y), Some(wrap(a + b)))?;
                chk("sub", x.sub(&y), Some(wrap(a - b)))?;
                chk("mul", x.mul(&y), Some(wrap(a * b)))?;
                chk("divu", x.divu(&y), if b == 0 { None } else { Some(a / b) })?;
                chk("modu", x.modu(&y), if b == 0 { None } else { Some(a % b) })?;
                // Rust's / and % on i64 truncate toward zero
                chk("divs", x.divs(&y), if b == 0 { None } else { Some(wrap(sgn(a) / sgn(b))) })?;
                chk("mods", x.mods(&y), if b == 0 { None } else { Some(wrap(sgn(a) % sgn(b))) })?;
                chk("and", x.and(&y), Some(a & b))?;
                chk("or", x.or(&y), Some(a | b))?;
                chk("xor", x.xor(&y), Some(a ^ b))?;
                chk("shl", x.shl(&y), Some(if b >= w as i64 { 0 } else { wrap(a << b) }))?;
                chk("shr", x.shr(&y), Some(if b >= w as i64 { 0 } else { a >> b }))?;
                chk(
                    "ashr",
                    x.ashr(&y),
                    Some(if b >= w as i64 {
                        if sgn(a) < 0 { m - 1 } else { 0 }
                    } else {
                        wrap(sgn(a) >> b)
                    }),
                )?;
                chk("cmpeq", x.cmpeq(&y), Some((a == b) as i64))?;
                chk("cmpneq", x.cmpneq(&y), Some((a != b) as i64))?;
                chk("cmpltu", x.cmpltu(&y), Some((a < b) as i64))?;
                chk("cmplts", x.cmplts(&y), Some((sgn(a) < sgn(b)) as i64))?;
                n += 17;
            }
            let x = Bv::from_u64(a as u64, w);
            for t in 1..=8usize {
                let z = x.zext(t).ok().map(|v| v.to_u64().unwrap() as i64);
                let want = if t > w { Some(a) } else { None };
                if z != want {
                    return Err(format!("Bv self-test zext w={} a={} t={}", w, a, t));
                }
                let s = x.sext(t).ok().map(|v| v.to_u64().unwrap() as i64);
                let want = if t > w { Some(((sgn(a) % (1 << t)) + (1 << t)) % (1 << t)) } else { None };
                if s != want {
                    return Err(format!("Bv self-test sext w={} a={} t={}: {:?} {:?}", w, a, t, s, want));
                }
                let r = x.trun(t).ok().map(|v| v.to_u64().unwrap() as i64);
                let want = if t < w { Some(a % (1 << t)) } else { None };
                if r != want {
                    return Err(format!("Bv self-test trun w={} a={} t={}", w, a, t));
                }
                n += 3;
            }
            for s in 0..=w {
                let r = x.rotl(s).to_u64().unwrap() as i64;
                let s2 = s % w;
                let want = wrap((a << s2) | (a >> (w - s2)));
                let want = if s2 == 0 { a } else { want };
                if r != want {
                    return Err(format!("Bv self-test rotl w={} a={} s={}", w, a, s));
                }
                n += 1;
            }
        }
    }
    Ok(n)
}
