//! Digraph generator decoded from an entropy tape: sparse arbitrary vertex ids, density classes,
//! and a guaranteed share of self-loops, unreachable vertices (including ones that point into
//! the reachable part), irreducible regions and roots inside loops.

use crate::tape::Tape;
use serde::{Deserialize, Serialize};
use std::collections::{BTreeMap, BTreeSet};

#[derive(Clone, Debug, Serialize, Deserialize, PartialEq, Eq, Hash)]
pub struct GraphSpec {
    pub vertices: Vec<usize>,
    pub edges: Vec<(usize, usize)>,
}

impl GraphSpec {
    pub fn succ(&self) -> BTreeMap<usize, BTreeSet<usize>> {
        let mut m: BTreeMap<usize, BTreeSet<usize>> = self.vertices.iter().map(|v| (*v, BTreeSet::new())).collect();
        for (h, t) in &self.edges {
            m.get_mut(h).unwrap().insert(*t);
        }
        m
    }
    pub fn pred(&self) -> BTreeMap<usize, BTreeSet<usize>> {
        let mut m: BTreeMap<usize, BTreeSet<usize>> = self.vertices.iter().map(|v| (*v, BTreeSet::new())).collect();
        for (h, t) in &self.edges {
            m.get_mut(t).unwrap().insert(*h);
        }
        m
    }
    pub fn reachable(&self, root: usize) -> BTreeSet<usize> {
        let s = self.succ();
        let mut seen = BTreeSet::new();
        let mut st = vec![root];
        while let Some(v) = st.pop() {
            if seen.insert(v) {
                st.extend(s[&v].iter().copied());
            }
        }
        seen
    }
    /// Build a falcon graph through its public insertion API.
    pub fn build(&self) -> Result<falcon::graph::Graph<falcon::graph::NullVertex, falcon::graph::NullEdge>, String> {
        let mut g = falcon::graph::Graph::new();
        for v in &self.vertices {
            g.insert_vertex(falcon::graph::NullVertex::new(*v)).map_err(|e| e.to_string())?;
        }
        for (h, t) in &self.edges {
            g.insert_edge(falcon::graph::NullEdge::new(*h, *t)).map_err(|e| e.to_string())?;
        }
        Ok(g)
    }
}

/// Decode a digraph with 1..=max_n vertices.  The first vertex of `vertices` is a natural root.
pub fn gen_graph(t: &mut Tape, max_n: usize) -> GraphSpec {
    let n = t.range(1, max_n);
    // ids: dense 0..n, offset, or sparse
    let ids: Vec<usize> = match t.below(3) {
        0 => (0..n).collect(),
        1 => {
            let off = t.below(1000);
            (0..n).map(|i| off + i).collect()
        }
        _ => {
            let mut s = BTreeSet::new();
            while s.len() < n {
                s.insert(t.below(64) * 3 + s.len() * 200);
            }
            let mut v: Vec<usize> = s.into_iter().collect();
            // shuffle a bit so the root is not always the smallest id
            if n > 1 && t.chance(1, 2) {
                let k = t.below(n);
                v.swap(0, k);
            }
            v
        }
    };
    let mut edges: BTreeSet<(usize, usize)> = BTreeSet::new();
    let style = t.below(5);
    // a spine so that much of the graph is reachable from ids[0]
    let reach_n = if t.chance(2, 5) { t.range(1, n) } else { n };
    for i in 1..reach_n {
        let from = match style {
            0 => i - 1,
            _ => t.below(i),
        };
        edges.insert((ids[from], ids[i]));
    }
    // extra edges by density
    let extra = match t.below(4) {
        0 => 0,
        1 => t.below(n + 1),
        2 => t.below(2 * n + 1),
        _ => t.below(n * n / 2 + 1),
    };
    for _ in 0..extra {
        let a = t.below(n);
        let b = match t.below(4) {
            0 => a,                 // self loop
            1 => t.below(a + 1),    // back edge
            _ => t.below(n),
        };
        edges.insert((ids[a], ids[b]));
    }
    // explicit irreducible pair:  r -> a, r -> b, a <-> b
    if n >= 3 && t.chance(1, 5) {
        edges.insert((ids[0], ids[1]));
        edges.insert((ids[0], ids[2]));
        edges.insert((ids[1], ids[2]));
        edges.insert((ids[2], ids[1]));
    }
    // root inside a loop
    if n >= 2 && t.chance(1, 4) {
        let k = t.range(1, reach_n.max(2) - 1).min(n - 1);
        edges.insert((ids[k], ids[0]));
    }
    GraphSpec {
        vertices: ids,
        edges: edges.into_iter().collect(),
    }
}
