//! Seeded proptest runner with a supervisor / worker split, evidence and replay writers and the
//! known-findings matcher.  See DESIGN.md section 1.
//!
//! A property binary calls `engine::main(spec)`.  Invoked without `--worker` it is the
//! supervisor: it replays the committed finding reproductions, spawns one worker process per
//! shard, watches them, merges their observations, writes the evidence file and maps the outcome
//! to the exit code contract (0 held, 1 VIOLATION, 2 inconclusive, 3 harness error).

use proptest::strategy::BoxedStrategy;
use proptest::test_runner::{Config, RngAlgorithm, TestCaseError, TestError, TestRng, TestRunner};
use serde::de::DeserializeOwned;
use serde::{Deserialize, Serialize};
use std::cell::RefCell;
use std::collections::{BTreeMap, BTreeSet, HashSet};
use std::hash::{Hash, Hasher};
use std::io::{Seek, SeekFrom, Write};
use std::panic::{catch_unwind, AssertUnwindSafe};
use std::path::{Path, PathBuf};
use std::process::{Command, ExitCode, Stdio};
use std::time::{Duration, Instant};

#[derive(Clone, Copy, Debug, PartialEq, Eq)]
pub enum Tier {
    Quick,
    Thorough,
}

impl Tier {
    pub fn name(self) -> &'static str {
        match self {
            Tier::Quick => "quick",
            Tier::Thorough => "thorough",
        }
    }
    /// pick by tier
    pub fn pick<T>(self, quick: T, thorough: T) -> T {
        match self {
            Tier::Quick => quick,
            Tier::Thorough => thorough,
        }
    }
}

/// A property violation found by a check.  `sig` identifies the *defect site as seen from
/// outside* (used for known-finding matching), `msg` is the human-readable detail.
#[derive(Clone, Debug, Serialize, Deserialize)]
pub struct Failure {
    pub sig: String,
    pub msg: String,
}

impl Failure {
    pub fn new<S: Into<String>, M: Into<String>>(sig: S, msg: M) -> Failure {
        Failure {
            sig: sig.into(),
            msg: msg.into(),
        }
    }
}

#[macro_export]
macro_rules! fail {
    ($sig:expr, $($arg:tt)*) => {
        return Err($crate::engine::Failure::new($sig, format!($($arg)*)))
    };
}

/// Information about a caught panic.
#[derive(Clone, Debug)]
pub struct PanicInfo {
    pub file: String,
    pub line: u32,
    pub msg: String,
}

impl PanicInfo {
    /// A signature that survives unrelated edits: file + message with digits squeezed.
    pub fn sig(&self) -> String {
        let mut m = String::new();
        let mut last_digit = false;
        for ch in self.msg.chars().take(80) {
            if ch.is_ascii_digit() {
                if !last_digit {
                    m.push('N');
                }
                last_digit = true;
            } else {
                last_digit = false;
                m.push(if ch == '\n' { ' ' } else { ch });
            }
        }
        let file = self
            .file
            .rsplit("/lib/")
            .next()
            .unwrap_or(&self.file)
            .to_string();
        let file = if self.file.contains("/lib/") && !self.file.contains(".cargo") {
            format!("lib/{}", file)
        } else {
            // dependency or harness file: keep the tail only
            let parts: Vec<&str> = self.file.rsplit('/').take(2).collect();
            parts.into_iter().rev().collect::<Vec<_>>().join("/")
        };
        format!("panic|{}|{}", file, m)
    }
}

thread_local! {
    static LAST_PANIC: RefCell<Option<PanicInfo>> = const { RefCell::new(None) };
}

fn install_quiet_hook() {
    std::panic::set_hook(Box::new(|info| {
        let (file, line) = info
            .location()
            .map(|l| (l.file().to_string(), l.line()))
            .unwrap_or_else(|| ("?".to_string(), 0));
        let msg = if let Some(s) = info.payload().downcast_ref::<&str>() {
            s.to_string()
        } else if let Some(s) = info.payload().downcast_ref::<String>() {
            s.clone()
        } else {
            "<non-string panic>".to_string()
        };
        LAST_PANIC.with(|p| *p.borrow_mut() = Some(PanicInfo { file, line, msg }));
    }));
}

/// Run `f`, turning a panic into `Err(PanicInfo)`.  Checks use this around calls into falcon
/// when a panic there is itself a violation and they want to build a precise signature.
pub fn guard<T>(f: impl FnOnce() -> T) -> Result<T, PanicInfo> {
    LAST_PANIC.with(|p| *p.borrow_mut() = None);
    match catch_unwind(AssertUnwindSafe(f)) {
        Ok(v) => Ok(v),
        Err(_) => Err(LAST_PANIC.with(|p| p.borrow_mut().take()).unwrap_or(PanicInfo {
            file: "?".into(),
            line: 0,
            msg: "panic without hook information".into(),
        })),
    }
}

pub fn fingerprint<H: Hash>(h: &H) -> u64 {
    let mut s = std::collections::hash_map::DefaultHasher::new();
    h.hash(&mut s);
    s.finish()
}

/// Observations of one case; merged into the worker totals only when the case counts.
#[derive(Default)]
pub struct Obs {
    classes: BTreeSet<String>,
    class_counts: BTreeMap<String, u64>,
    excluded: BTreeMap<String, u64>,
    nontrivial: Vec<u64>,
    sample: Option<String>,
    want_sample: bool,
    known: KnownSigs,
    /// true when the case is being re-run by `--replay`
    pub replay: bool,
}

impl Obs {
    /// The case belongs to class `name` (counted once per case).
    pub fn class(&mut self, name: &str) {
        if !self.classes.contains(name) {
            self.classes.insert(name.to_string());
        }
    }
    /// Count `n` events of kind `name` (not per case; e.g. instructions compared).
    pub fn count(&mut self, name: &str, n: u64) {
        *self.class_counts.entry(name.to_string()).or_insert(0) += n;
    }
    /// Something was deliberately not compared, with a reason.
    pub fn exclude(&mut self, reason: &str) {
        *self.excluded.entry(reason.to_string()).or_insert(0) += 1;
    }
    /// The case is non-trivial by the property's stated rule; `fp` is what makes it distinct.
    pub fn nontrivial<H: Hash>(&mut self, fp: &H) {
        self.nontrivial.push(fingerprint(fp));
    }
    pub fn is_nontrivial(&self) -> bool {
        !self.nontrivial.is_empty()
    }
    /// True when the engine would keep a rendered sample of this case.
    pub fn want_sample(&self) -> bool {
        self.want_sample
    }
    pub fn sample(&mut self, s: String) {
        if self.want_sample && self.sample.is_none() {
            let mut s = s;
            if s.len() > 1500 {
                let mut cut = 1500;
                while !s.is_char_boundary(cut) {
                    cut -= 1;
                }
                s.truncate(cut);
                s.push_str(" …");
            }
            self.sample = Some(s);
        }
    }
    /// Is `sig` a recorded known finding?  Lets a check exclude, by construction, an input that
    /// would abort the process (the committed reproduction demonstrates it instead).
    pub fn known(&self, sig: &str) -> bool {
        self.known.contains(sig)
    }
}

#[derive(Default, Serialize, Deserialize)]
struct Totals {
    evaluations: u64,
    nontrivial_cases: u64,
    classes: BTreeMap<String, u64>,
    counts: BTreeMap<String, u64>,
    excluded: BTreeMap<String, u64>,
    known_hits: BTreeMap<String, u64>,
    nontrivial: Vec<u64>,
    samples: Vec<String>,
    class_samples: BTreeMap<String, String>,
    failure: Option<ReplayFile>,
    harness_error: Option<String>,
}

#[derive(Clone, Serialize, Deserialize)]
pub struct ReplayFile {
    pub property: String,
    pub sig: String,
    pub msg: String,
    pub seed: u64,
    pub shard: usize,
    pub case: serde_json::Value,
}

/// The signatures of the recorded findings of one property.  An entry is matched exactly, except
/// that the marker `{*}` inside an entry stands for any (possibly empty) run of characters: one
/// root cause that shows under an open-ended family of call sites (one signature per mnemonic,
/// say) is recorded once, e.g. `C01|amd64|{*}|-|*|addr32`.
#[derive(Clone, Debug, Default)]
pub struct KnownSigs {
    exact: BTreeSet<String>,
    patterns: Vec<String>,
}

impl KnownSigs {
    pub fn insert(&mut self, sig: String) {
        if sig.contains("{*}") {
            if !self.patterns.contains(&sig) {
                self.patterns.push(sig);
            }
        } else {
            self.exact.insert(sig);
        }
    }
    /// the entry that covers `sig`
    pub fn entry_of(&self, sig: &str) -> Option<&str> {
        if let Some(e) = self.exact.get(sig) {
            return Some(e.as_str());
        }
        self.patterns.iter().find(|p| glob_match(p, sig)).map(|p| p.as_str())
    }
    pub fn contains(&self, sig: &str) -> bool {
        self.entry_of(sig).is_some()
    }
    pub fn is_empty(&self) -> bool {
        self.exact.is_empty() && self.patterns.is_empty()
    }
}

impl FromIterator<String> for KnownSigs {
    fn from_iter<I: IntoIterator<Item = String>>(it: I) -> Self {
        let mut k = KnownSigs::default();
        for s in it {
            k.insert(s);
        }
        k
    }
}

/// `pattern` with `{*}` markers against `text` (anchored at both ends)
pub fn glob_match(pattern: &str, text: &str) -> bool {
    let parts: Vec<&str> = pattern.split("{*}").collect();
    if parts.len() == 1 {
        return pattern == text;
    }
    let first = parts[0];
    let last = parts[parts.len() - 1];
    if !text.starts_with(first) {
        return false;
    }
    let mut rest = &text[first.len()..];
    for mid in &parts[1..parts.len() - 1] {
        match rest.find(mid) {
            Some(i) => rest = &rest[i + mid.len()..],
            None => return false,
        }
    }
    rest.len() >= last.len() && rest.ends_with(last)
}

#[derive(Clone, Debug, Deserialize)]
pub struct KnownFinding {
    pub property: String,
    pub signature: String,
    pub status: String,
    #[serde(default)]
    pub commit: Option<String>,
    pub what: String,
    #[serde(default)]
    pub repro: Option<String>,
}

/// Signatures of the recorded (status "known") findings of a property; for fuzz targets.
pub fn known_signatures(id: &str) -> KnownSigs {
    load_known(id)
        .into_iter()
        .filter(|k| k.status == "known")
        .map(|k| k.signature)
        .collect()
}

impl Obs {
    /// An observation sink outside the engine (libFuzzer targets).
    pub fn standalone(known: KnownSigs) -> Obs {
        Obs {
            known,
            ..Obs::default()
        }
    }
}

/// Used by libFuzzer targets: run `check` on one case; a violation that is not a known finding is
/// written as a replay file and then panics (libFuzzer keeps the input as a crash artifact).
pub fn fuzz_one<C: Serialize>(
    id: &str,
    case: &C,
    render: &dyn Fn(&C) -> String,
    check: &dyn Fn(&C, &mut Obs) -> Result<(), Failure>,
) {
    thread_local! {
        static KNOWN: RefCell<Option<(String, KnownSigs)>> = const { RefCell::new(None) };
    }
    let known = KNOWN.with(|k| {
        let mut k = k.borrow_mut();
        if k.as_ref().map(|x| x.0 != id).unwrap_or(true) {
            install_quiet_hook();
            *k = Some((id.to_string(), known_signatures(id)));
        }
        k.as_ref().unwrap().1.clone()
    });
    let mut obs = Obs::standalone(known.clone());
    let r = match guard(|| check(case, &mut obs)) {
        Ok(r) => r,
        Err(p) => Err(Failure::new(p.sig(), format!("panic at {}:{}: {}", p.file, p.line, p.msg))),
    };
    if let Err(f) = r {
        if known.contains(&f.sig) {
            return;
        }
        let replay = ReplayFile {
            property: id.to_string(),
            sig: f.sig.clone(),
            msg: format!("{}\n--- case ---\n{}", f.msg, render(case)),
            seed: 0,
            shard: 0,
            case: serde_json::to_value(case).unwrap_or(serde_json::Value::Null),
        };
        let path = write_replay(id, &replay);
        let _ = std::panic::take_hook();
        println!("violation sig={} :: {}", f.sig, f.msg.lines().next().unwrap_or(""));
        println!("VIOLATION property={} replay={}", id, path.display());
        std::process::abort();
    }
}

pub struct Spec<C: 'static> {
    pub id: &'static str,
    /// how cases are generated and what makes one non-trivial / distinct
    pub rule: &'static str,
    pub assumptions: Vec<String>,
    pub strategy: Box<dyn Fn(Tier) -> BoxedStrategy<C>>,
    pub cases: fn(Tier) -> u64,
    pub check: fn(&C, &mut Obs) -> Result<(), Failure>,
    /// (class, minimal fraction of evaluations); an unmet floor is a harness error (exit 3)
    pub floors: Vec<(&'static str, f64)>,
    pub workers: fn(Tier) -> usize,
    /// seconds without progress of a worker before it is killed
    pub case_timeout_s: u64,
    /// if true a hang is a violation of this property (C05, C09), otherwise exit 2
    pub hang_is_violation: bool,
    /// signature for a case that crashed / hung the worker (no Failure could be produced)
    pub crash_sig: fn(&C) -> String,
    /// readable rendering for the replay file
    pub render: fn(&C) -> String,
    /// optional structural shrinker applied after proptest's: candidates simpler than the case
    /// (e.g. the history with one operation removed); greedy, bounded
    pub simplify: Option<fn(&C) -> Vec<C>>,
}

impl<C: std::fmt::Debug + 'static> Spec<C> {
    pub fn new(
        id: &'static str,
        rule: &'static str,
        strategy: Box<dyn Fn(Tier) -> BoxedStrategy<C>>,
        cases: fn(Tier) -> u64,
        check: fn(&C, &mut Obs) -> Result<(), Failure>,
    ) -> Spec<C> {
        Spec {
            id,
            rule,
            assumptions: Vec::new(),
            strategy,
            cases,
            check,
            floors: Vec::new(),
            workers: |t| t.pick(8, 16),
            case_timeout_s: 120,
            hang_is_violation: false,
            crash_sig: |_| "crash".to_string(),
            render: |c| format!("{:?}", c),
            simplify: None,
        }
    }
}

pub fn verif_dir() -> PathBuf {
    PathBuf::from(std::env::var("VERIF_DIR").unwrap_or_else(|_| "/verif".to_string()))
}

fn load_known(id: &str) -> Vec<KnownFinding> {
    let mut files = vec![verif_dir().join("known_findings.json")];
    // development aid: an extra list (never used by the registered checks)
    if let Ok(extra) = std::env::var("FV_EXTRA_KNOWN") {
        files.push(PathBuf::from(extra));
    }
    let mut out = Vec::new();
    for path in files {
        let text = match std::fs::read_to_string(&path) {
            Ok(t) => t,
            Err(_) => continue,
        };
        let all: Vec<KnownFinding> = match serde_json::from_str(&text) {
            Ok(v) => v,
            Err(e) => {
                eprintln!("HARNESS-ERROR: cannot parse {}: {}", path.display(), e);
                std::process::exit(3);
            }
        };
        out.extend(all.into_iter().filter(|k| k.property == id));
    }
    out
}

struct Args {
    tier: Tier,
    seed: u64,
    worker: Option<(usize, usize)>,
    out: Option<PathBuf>,
    journal: Option<PathBuf>,
    heartbeat: Option<PathBuf>,
    replay: Option<PathBuf>,
    cases: Option<u64>,
    workers: Option<usize>,
}

fn parse_args() -> Args {
    let mut a = Args {
        tier: match std::env::var("VERIF_TIER").ok().as_deref() {
            Some("thorough") => Tier::Thorough,
            _ => Tier::Quick,
        },
        seed: std::env::var("VERIF_SEED")
            .ok()
            .and_then(|s| s.trim().parse::<i128>().ok())
            .map(|v| v as u64)
            .unwrap_or(1),
        worker: None,
        out: None,
        journal: None,
        heartbeat: None,
        replay: None,
        cases: None,
        workers: None,
    };
    let v: Vec<String> = std::env::args().skip(1).collect();
    let mut i = 0;
    let next = |i: &mut usize| -> String {
        *i += 1;
        v.get(*i).cloned().unwrap_or_else(|| {
            eprintln!("HARNESS-ERROR: missing argument value");
            std::process::exit(3)
        })
    };
    while i < v.len() {
        match v[i].as_str() {
            "quick" | "--quick" => a.tier = Tier::Quick,
            "thorough" | "--thorough" => a.tier = Tier::Thorough,
            "--tier" => {
                a.tier = if next(&mut i) == "thorough" {
                    Tier::Thorough
                } else {
                    Tier::Quick
                }
            }
            "--seed" => a.seed = next(&mut i).parse::<i128>().unwrap_or(1) as u64,
            "--worker" => {
                let s = next(&mut i).parse().unwrap();
                let n = next(&mut i).parse().unwrap();
                a.worker = Some((s, n));
            }
            "--out" => a.out = Some(PathBuf::from(next(&mut i))),
            "--journal" => a.journal = Some(PathBuf::from(next(&mut i))),
            "--heartbeat" => a.heartbeat = Some(PathBuf::from(next(&mut i))),
            "--replay" => a.replay = Some(PathBuf::from(next(&mut i))),
            "--cases" => a.cases = Some(next(&mut i).parse().unwrap()),
            "--workers" => a.workers = Some(next(&mut i).parse().unwrap()),
            other => {
                eprintln!("HARNESS-ERROR: unknown argument {}", other);
                std::process::exit(3);
            }
        }
        i += 1;
    }
    a
}

// ---------------------------------------------------------------------------------------------
// heartbeat: 16 bytes of shared memory (case counter, state)

struct Heartbeat {
    ptr: *mut u64,
}

impl Heartbeat {
    fn open(path: &Path) -> Option<Heartbeat> {
        use std::os::unix::io::AsRawFd;
        let f = std::fs::OpenOptions::new()
            .read(true)
            .write(true)
            .create(true)
            .truncate(false)
            .open(path)
            .ok()?;
        f.set_len(64).ok()?;
        let p = unsafe {
            libc::mmap(
                std::ptr::null_mut(),
                64,
                libc::PROT_READ | libc::PROT_WRITE,
                libc::MAP_SHARED,
                f.as_raw_fd(),
                0,
            )
        };
        if p == libc::MAP_FAILED {
            return None;
        }
        Some(Heartbeat { ptr: p as *mut u64 })
    }
    fn bump(&self) {
        unsafe {
            let v = std::ptr::read_volatile(self.ptr);
            std::ptr::write_volatile(self.ptr, v.wrapping_add(1));
        }
    }
    fn read(&self) -> u64 {
        unsafe { std::ptr::read_volatile(self.ptr) }
    }
}

// ---------------------------------------------------------------------------------------------

fn shard_seed(seed: u64, shard: usize, id: &str) -> [u8; 32] {
    // splitmix-style expansion; a pure function of (seed, shard, property id)
    let mut x = seed ^ (shard as u64).wrapping_mul(0x9E37_79B9_7F4A_7C15) ^ fingerprint(&id);
    let mut out = [0u8; 32];
    for chunk in out.chunks_mut(8) {
        x = x.wrapping_add(0x9E37_79B9_7F4A_7C15);
        let mut z = x;
        z = (z ^ (z >> 30)).wrapping_mul(0xBF58_476D_1CE4_E5B9);
        z = (z ^ (z >> 27)).wrapping_mul(0x94D0_49BB_1331_11EB);
        z ^= z >> 31;
        chunk.copy_from_slice(&z.to_le_bytes());
    }
    out
}

fn run_case<C>(spec: &Spec<C>, case: &C, obs: &mut Obs) -> Result<(), Failure> {
    match guard(|| (spec.check)(case, obs)) {
        Ok(r) => r,
        Err(p) => Err(Failure::new(
            p.sig(),
            format!("panic at {}:{}: {}", p.file, p.line, p.msg),
        )),
    }
}

fn worker<C>(spec: &Spec<C>, args: &Args, shard: usize, nshards: usize) -> ExitCode
where
    C: std::fmt::Debug + Clone + Serialize + DeserializeOwned + 'static,
{
    install_quiet_hook();
    // bound the address space so a runaway allocation aborts this worker instead of the box
    unsafe {
        let lim = libc::rlimit {
            rlim_cur: 12 << 30,
            rlim_max: 12 << 30,
        };
        libc::setrlimit(libc::RLIMIT_AS, &lim);
    }
    let known: KnownSigs = load_known(spec.id)
        .into_iter()
        .filter(|k| k.status == "known")
        .map(|k| k.signature)
        .collect();
    let total = args.cases.unwrap_or_else(|| (spec.cases)(args.tier));
    let my_cases = (total / nshards as u64 + if (shard as u64) < total % nshards as u64 { 1 } else { 0 })
        .max(1);
    let config = Config {
        cases: my_cases.min(u32::MAX as u64) as u32,
        failure_persistence: None,
        max_shrink_iters: 8192,
        max_global_rejects: 1 << 20,
        ..Config::default()
    };
    let rng = TestRng::from_seed(RngAlgorithm::ChaCha, &shard_seed(args.seed, shard, spec.id));
    let mut runner = TestRunner::new_with_rng(config, rng);
    let strategy = (spec.strategy)(args.tier);
    let hb = args.heartbeat.as_deref().and_then(Heartbeat::open);
    let journal = RefCell::new(args.journal.as_ref().map(|p| {
        std::fs::OpenOptions::new()
            .write(true)
            .create(true)
            .truncate(true)
            .open(p)
            .expect("journal")
    }));

    let totals = RefCell::new(Totals::default());
    let failed = std::cell::Cell::new(false);
    let seen: RefCell<HashSet<u64>> = RefCell::new(HashSet::new());

    let result = runner.run(&strategy, |case| {
        if let Some(hb) = &hb {
            hb.bump();
        }
        if let Some(j) = journal.borrow_mut().as_mut() {
            let text = serde_json::to_vec(&case).unwrap_or_default();
            let _ = j.set_len(0);
            let _ = j.seek(SeekFrom::Start(0));
            let _ = j.write_all(&text);
        }
        let mut obs = Obs {
            known: known.clone(),
            ..Obs::default()
        };
        {
            let t = totals.borrow();
            obs.want_sample = !failed.get() && t.samples.len() < 6;
        }
        let r = run_case(spec, &case, &mut obs);
        let counting = !failed.get();
        let mut t = totals.borrow_mut();
        match r {
            Ok(()) => {
                if counting {
                    merge_case(&mut t, &mut seen.borrow_mut(), obs);
                }
                Ok(())
            }
            Err(f) => {
                if known.contains(&f.sig) {
                    if counting {
                        t.evaluations += 1;
                        *t.known_hits.entry(known.entry_of(&f.sig).unwrap_or(&f.sig).to_string()).or_insert(0) += 1;
                        *t.excluded.entry("known_finding".into()).or_insert(0) += 1;
                        // the case still belongs to its classes (generator distribution)
                        for c in &obs.classes {
                            *t.classes.entry(c.clone()).or_insert(0) += 1;
                        }
                    }
                    Ok(())
                } else {
                    if counting {
                        t.evaluations += 1;
                    }
                    failed.set(true);
                    Err(TestCaseError::fail(f.sig))
                }
            }
        }
    });

    let mut t = totals.into_inner();
    match result {
        Ok(()) => {}
        Err(TestError::Fail(_, minimal)) => {
            let mut minimal = minimal;
            if let Some(simplify) = spec.simplify {
                let mut budget = 4000usize;
                'outer: loop {
                    for cand in simplify(&minimal) {
                        if budget == 0 {
                            break 'outer;
                        }
                        budget -= 1;
                        let mut o = Obs {
                            known: known.clone(),
                            ..Obs::default()
                        };
                        if let Err(f) = run_case(spec, &cand, &mut o) {
                            if !known.contains(&f.sig) {
                                minimal = cand;
                                continue 'outer;
                            }
                        }
                    }
                    break;
                }
            }
            let mut obs = Obs {
                known: known.clone(),
                ..Obs::default()
            };
            let f = match run_case(spec, &minimal, &mut obs) {
                Err(f) => f,
                Ok(()) => Failure::new(
                    "nondeterministic",
                    "the shrunk case passed when re-run: the check or the code is not deterministic",
                ),
            };
            t.failure = Some(ReplayFile {
                property: spec.id.to_string(),
                sig: f.sig,
                msg: format!("{}\n--- case ---\n{}", f.msg, (spec.render)(&minimal)),
                seed: args.seed,
                shard,
                case: serde_json::to_value(&minimal).unwrap_or(serde_json::Value::Null),
            });
        }
        Err(TestError::Abort(reason)) => {
            t.harness_error = Some(format!("proptest aborted: {}", reason));
        }
    }
    let out = args.out.clone().expect("--out");
    std::fs::write(&out, serde_json::to_vec(&t).unwrap()).expect("write worker result");
    ExitCode::SUCCESS
}

fn merge_case(t: &mut Totals, seen: &mut HashSet<u64>, obs: Obs) {
    t.evaluations += 1;
    for c in &obs.classes {
        *t.classes.entry(c.clone()).or_insert(0) += 1;
    }
    for (k, v) in &obs.class_counts {
        *t.counts.entry(k.clone()).or_insert(0) += v;
    }
    for (k, v) in &obs.excluded {
        *t.excluded.entry(k.clone()).or_insert(0) += v;
    }
    if !obs.nontrivial.is_empty() {
        t.nontrivial_cases += 1;
        for fp in &obs.nontrivial {
            if seen.len() < 4_000_000 && seen.insert(*fp) {
                t.nontrivial.push(*fp);
            }
        }
    }
    if let Some(s) = obs.sample {
        if !obs.nontrivial.is_empty() || t.samples.is_empty() {
            for c in &obs.classes {
                if !t.class_samples.contains_key(c) && t.class_samples.len() < 40 {
                    t.class_samples.insert(c.clone(), s.clone());
                }
            }
            if t.samples.len() < 6 && !obs.nontrivial.is_empty() {
                t.samples.push(s);
            } else if t.samples.is_empty() {
                // keep one trivial sample until a non-trivial one shows up
                t.class_samples.entry("(trivial)".into()).or_insert(s);
            }
        }
    }
}

// ---------------------------------------------------------------------------------------------

enum WorkerEnd {
    Done(Totals),
    Crashed(String),
    Hung,
}

fn spawn_worker(
    exe: &Path,
    args: &Args,
    shard: usize,
    n: usize,
    work: &Path,
    journal: bool,
    total_cases: u64,
) -> std::process::Child {
    let mut cmd = Command::new(exe);
    cmd.arg("--tier")
        .arg(args.tier.name())
        .arg("--seed")
        .arg(args.seed.to_string())
        .arg("--cases")
        .arg(total_cases.to_string())
        .arg("--worker")
        .arg(shard.to_string())
        .arg(n.to_string())
        .arg("--out")
        .arg(work.join(format!("shard-{}.json", shard)))
        .arg("--heartbeat")
        .arg(work.join(format!("hb-{}", shard)));
    if journal {
        cmd.arg("--journal")
            .arg(work.join(format!("journal-{}.json", shard)));
    }
    cmd.stdin(Stdio::null());
    cmd.spawn().expect("spawn worker")
}

fn wait_workers(
    mut children: Vec<(usize, std::process::Child)>,
    work: &Path,
    timeout_s: u64,
    deadline: Instant,
) -> Result<Vec<(usize, WorkerEnd)>, String> {
    let mut ends = Vec::new();
    let mut last: BTreeMap<usize, (u64, Instant, f64)> = BTreeMap::new();
    let mut hbs: BTreeMap<usize, Heartbeat> = BTreeMap::new();
    while !children.is_empty() {
        std::thread::sleep(Duration::from_millis(25));
        let mut still: Vec<(usize, std::process::Child)> = Vec::new();
        for (shard, mut child) in children {
            match child.try_wait() {
                Ok(Some(status)) => {
                    let out = work.join(format!("shard-{}.json", shard));
                    if status.success() && out.exists() {
                        match std::fs::read(&out)
                            .ok()
                            .and_then(|b| serde_json::from_slice::<Totals>(&b).ok())
                        {
                            Some(t) => ends.push((shard, WorkerEnd::Done(t))),
                            None => ends.push((
                                shard,
                                WorkerEnd::Crashed("unreadable worker result".into()),
                            )),
                        }
                    } else {
                        use std::os::unix::process::ExitStatusExt;
                        let how = match status.signal() {
                            Some(s) => format!("signal {}", s),
                            None => format!("exit {:?}", status.code()),
                        };
                        ends.push((shard, WorkerEnd::Crashed(how)));
                    }
                }
                Ok(None) => {
                    let now = Instant::now();
                    if !hbs.contains_key(&shard) {
                        if let Some(h) = Heartbeat::open(&work.join(format!("hb-{}", shard))) {
                            hbs.insert(shard, h);
                        }
                    }
                    let cur = hbs.get(&shard).map(|h| h.read()).unwrap_or(0);
                    // progress is judged in CPU seconds consumed by the worker, so that a loaded
                    // machine cannot make a healthy worker look hung
                    let cpu = cpu_seconds(child.id());
                    let e = last.entry(shard).or_insert((cur, now, cpu));
                    if e.0 != cur {
                        *e = (cur, now, cpu);
                    }
                    let stuck_cpu = cpu - e.2;
                    let stuck_wall = now.duration_since(e.1).as_secs();
                    if stuck_cpu >= timeout_s as f64 {
                        let _ = child.kill();
                        let _ = child.wait();
                        ends.push((shard, WorkerEnd::Hung));
                    } else if now > deadline || stuck_wall >= timeout_s * 30 {
                        let _ = child.kill();
                        let _ = child.wait();
                        for (_, mut c) in still {
                            let _ = c.kill();
                            let _ = c.wait();
                        }
                        return Err("wall-clock budget exhausted".into());
                    } else {
                        still.push((shard, child));
                    }
                }
                Err(e) => return Err(format!("wait failed: {}", e)),
            }
        }
        children = still;
    }
    Ok(ends)
}

/// user+system CPU seconds consumed so far by process `pid` (0 if unreadable)
fn cpu_seconds(pid: u32) -> f64 {
    let Ok(text) = std::fs::read_to_string(format!("/proc/{}/stat", pid)) else { return 0.0 };
    // fields after the parenthesised command name
    let Some(rest) = text.rsplit_once(')').map(|x| x.1) else { return 0.0 };
    let f: Vec<&str> = rest.split_whitespace().collect();
    // rest[0] is field 3 (state); utime = field 14, stime = field 15
    let ut: f64 = f.get(11).and_then(|x| x.parse().ok()).unwrap_or(0.0);
    let st: f64 = f.get(12).and_then(|x| x.parse().ok()).unwrap_or(0.0);
    let tck = unsafe { libc::sysconf(libc::_SC_CLK_TCK) } as f64;
    (ut + st) / if tck > 0.0 { tck } else { 100.0 }
}

fn write_replay(id: &str, r: &ReplayFile) -> PathBuf {
    let dir = verif_dir().join("replays").join(id);
    let _ = std::fs::create_dir_all(&dir);
    let h = fingerprint(&(r.sig.clone(), r.case.to_string()));
    let sane: String = r
        .sig
        .chars()
        .map(|c| if c.is_ascii_alphanumeric() { c } else { '_' })
        .take(60)
        .collect();
    let path = dir.join(format!("{}-{:016x}.json", sane, h));
    std::fs::write(&path, serde_json::to_vec_pretty(r).unwrap()).expect("write replay");
    path
}

fn replay<C>(spec: &Spec<C>, path: &Path) -> ExitCode
where
    C: std::fmt::Debug + Clone + Serialize + DeserializeOwned + 'static,
{
    install_quiet_hook();
    let text = match std::fs::read_to_string(path) {
        Ok(t) => t,
        Err(e) => {
            eprintln!("HARNESS-ERROR: cannot read {}: {}", path.display(), e);
            return ExitCode::from(3);
        }
    };
    let value: serde_json::Value = match serde_json::from_str(&text) {
        Ok(v) => v,
        Err(e) => {
            eprintln!("HARNESS-ERROR: {}: {}", path.display(), e);
            return ExitCode::from(3);
        }
    };
    let case_v = value.get("case").cloned().unwrap_or(value);
    let case: C = match serde_json::from_value(case_v) {
        Ok(c) => c,
        Err(e) => {
            eprintln!("HARNESS-ERROR: {} is not a case of {}: {}", path.display(), spec.id, e);
            return ExitCode::from(3);
        }
    };
    let mut obs = Obs {
        replay: true,
        ..Obs::default()
    };
    match run_case(spec, &case, &mut obs) {
        Ok(()) => {
            println!("REPLAY-PASS property={} file={}", spec.id, path.display());
            ExitCode::SUCCESS
        }
        Err(f) => {
            println!("REPLAY-FAIL property={} sig={}", spec.id, f.sig);
            println!("{}", f.msg);
            println!("--- case ---\n{}", (spec.render)(&case));
            println!("VIOLATION property={} replay={}", spec.id, path.display());
            ExitCode::from(1)
        }
    }
}

/// Replay one committed reproduction in a child process; returns (exit code or None on crash,
/// signature printed).
fn replay_child(exe: &Path, file: &Path) -> (Option<i32>, Option<String>) {
    let out = Command::new(exe)
        .arg("--replay")
        .arg(file)
        .stdin(Stdio::null())
        .output();
    match out {
        Ok(o) => {
            let text = String::from_utf8_lossy(&o.stdout).to_string();
            let sig = text
                .lines()
                .find_map(|l| l.split_once(" sig=").map(|(_, s)| s.trim().to_string()));
            (o.status.code(), sig)
        }
        Err(_) => (None, None),
    }
}

pub fn main<C>(spec: Spec<C>) -> ExitCode
where
    C: std::fmt::Debug + Clone + Serialize + DeserializeOwned + 'static,
{
    let args = parse_args();
    if let Some((s, n)) = args.worker {
        // run on a big stack: falcon recursion on deep expressions must not kill the worker
        let spec_ptr = &spec as *const Spec<C> as usize;
        let args_ptr = &args as *const Args as usize;
        let h = std::thread::Builder::new()
            .stack_size(1 << 30)
            .spawn(move || {
                let spec = unsafe { &*(spec_ptr as *const Spec<C>) };
                let args = unsafe { &*(args_ptr as *const Args) };
                worker(spec, args, s, n)
            })
            .expect("spawn");
        return h.join().unwrap_or(ExitCode::from(101));
    }
    if let Some(p) = &args.replay {
        let spec_ptr = &spec as *const Spec<C> as usize;
        let p = p.clone();
        let h = std::thread::Builder::new()
            .stack_size(1 << 30)
            .spawn(move || {
                let spec = unsafe { &*(spec_ptr as *const Spec<C>) };
                replay(spec, &p)
            })
            .expect("spawn");
        return h.join().unwrap_or(ExitCode::from(101));
    }
    supervisor(&spec, &args)
}

fn supervisor<C>(spec: &Spec<C>, args: &Args) -> ExitCode
where
    C: std::fmt::Debug + Clone + Serialize + DeserializeOwned + 'static,
{
    let started = Instant::now();
    let exe = std::env::current_exe().expect("current_exe");
    let id = spec.id;
    let work = verif_dir().join("work").join(id);
    let _ = std::fs::remove_dir_all(&work);
    std::fs::create_dir_all(&work).expect("work dir");
    let known = load_known(id);
    let known_sigs: KnownSigs = known
        .iter()
        .filter(|k| k.status == "known")
        .map(|k| k.signature.clone())
        .collect();
    let mut violations: Vec<(String, PathBuf)> = Vec::new();
    let mut inconclusive: Vec<String> = Vec::new();
    let mut harness_errors: Vec<String> = Vec::new();
    let mut regression = 0u64;

    // 1. committed reproductions
    for k in &known {
        let Some(repro) = &k.repro else { continue };
        let file = verif_dir().join(repro);
        if !file.exists() {
            eprintln!("HARNESS-ERROR: repro {} missing", file.display());
            return ExitCode::from(3);
        }
        let (code, sig) = replay_child(&exe, &file);
        regression += 1;
        match (k.status.as_str(), code) {
            ("fixed", Some(0)) => {}
            (_, Some(3)) => {
                eprintln!("HARNESS-ERROR: repro {} unreadable", file.display());
                return ExitCode::from(3);
            }
            ("fixed", _) => {
                println!(
                    "regression of a fixed finding ({}): {} [{}]",
                    k.signature,
                    k.what,
                    sig.clone().unwrap_or_else(|| "crash".into())
                );
                violations.push((k.signature.clone(), file));
            }
            ("known", Some(0)) => {
                println!(
                    "note: known finding {} no longer reproduces from {}",
                    k.signature, repro
                );
            }
            ("known", _) => {
                println!("KNOWN-FINDING: property={} {} [{}]", id, k.what, k.signature);
            }
            _ => {}
        }
    }
    for k in &known {
        if k.status == "known" && k.repro.is_none() {
            println!("KNOWN-FINDING: property={} {} [{}]", id, k.what, k.signature);
        }
    }

    // 2. generated search
    let total_cases = args.cases.unwrap_or_else(|| (spec.cases)(args.tier));
    let n = args
        .workers
        .unwrap_or_else(|| (spec.workers)(args.tier))
        .max(1)
        .min(total_cases.max(1) as usize);
    let deadline = started + Duration::from_secs(args.tier.pick(40 * 60, 6 * 3600));
    let children: Vec<_> = (0..n)
        .map(|s| (s, spawn_worker(&exe, args, s, n, &work, false, total_cases)))
        .collect();
    let ends = match wait_workers(children, &work, spec.case_timeout_s, deadline) {
        Ok(e) => e,
        Err(e) => {
            println!("INCONCLUSIVE property={} {}", id, e);
            return ExitCode::from(2);
        }
    };

    let mut total = Totals::default();
    let mut distinct: HashSet<u64> = HashSet::new();
    for (shard, end) in ends {
        let (how, hung) = match end {
            WorkerEnd::Done(t) => {
                absorb(&mut total, &mut distinct, t, id, shard, &mut violations, &mut harness_errors);
                continue;
            }
            WorkerEnd::Crashed(how) => (how, false),
            WorkerEnd::Hung => (format!("no progress for {} s", spec.case_timeout_s), true),
        };
        // The worker died or hung.  Runs are pure functions of the seed: re-run the shard with
        // the journal on, and the case in flight when it dies again is the culprit.
        println!("worker {} ended abnormally ({}); re-running it with the journal on", shard, how);
        let child = spawn_worker(&exe, args, shard, n, &work, true, total_cases);
        let again = wait_workers(vec![(shard, child)], &work, spec.case_timeout_s, deadline);
        let journal = work.join(format!("journal-{}.json", shard));
        match again {
            Ok(mut v) => match v.pop().map(|x| x.1) {
                Some(WorkerEnd::Done(t)) => {
                    // did not happen again: not reproducible, say so
                    absorb(&mut total, &mut distinct, t, id, shard, &mut violations, &mut harness_errors);
                    inconclusive.push(format!(
                        "worker {} ended abnormally ({}) but the re-run completed",
                        shard, how
                    ));
                }
                Some(_) => {
                    let case_v: Option<serde_json::Value> = std::fs::read(&journal)
                        .ok()
                        .and_then(|b| serde_json::from_slice(&b).ok());
                    let case: Option<C> = case_v
                        .clone()
                        .and_then(|v| serde_json::from_value(v).ok());
                    match (case, case_v) {
                        (Some(case), Some(case_v)) => {
                            let sig = format!(
                                "{}|{}",
                                if hung { "hang" } else { "abort" },
                                (spec.crash_sig)(&case)
                            );
                            let r = ReplayFile {
                                property: id.to_string(),
                                sig: sig.clone(),
                                msg: format!(
                                    "worker process ended abnormally ({}) while running this case\n--- case ---\n{}",
                                    how,
                                    (spec.render)(&case)
                                ),
                                seed: args.seed,
                                shard,
                                case: case_v,
                            };
                            let path = write_replay(id, &r);
                            if known_sigs.contains(&sig) {
                                // cannot continue past it in this shard; tell the reader
                                inconclusive.push(format!(
                                    "known finding {} killed worker {}; its remaining cases were not run",
                                    sig, shard
                                ));
                            } else if hung && !spec.hang_is_violation {
                                inconclusive.push(format!(
                                    "case exceeded the {} s watchdog: {}",
                                    spec.case_timeout_s,
                                    path.display()
                                ));
                            } else {
                                println!("violation sig={} :: worker {}", sig, how);
                                violations.push((sig, path));
                            }
                        }
                        _ => harness_errors.push(format!(
                            "worker {} ended abnormally ({}) and left no readable journal",
                            shard, how
                        )),
                    }
                }
                None => harness_errors.push("lost worker".into()),
            },
            Err(e) => inconclusive.push(e),
        }
    }

    // 3. verdict and evidence
    let evals = total.evaluations.max(1) as f64;
    let mut floor_errors = Vec::new();
    if violations.is_empty() {
        for (class, min) in &spec.floors {
            let got = *total.classes.get(*class).unwrap_or(&0) as f64 / evals;
            if got < *min {
                floor_errors.push(format!(
                    "class '{}' is {:.4} of cases, below its floor {:.4}",
                    class, got, min
                ));
            }
        }
    }
    let wall = started.elapsed().as_secs_f64();
    let mut samples: Vec<serde_json::Value> = total
        .samples
        .iter()
        .map(|s| serde_json::Value::String(s.clone()))
        .collect();
    for (c, s) in &total.class_samples {
        if samples.len() >= 16 {
            break;
        }
        if !total.samples.contains(s) {
            samples.push(serde_json::json!({ "class": c, "case": s }));
        }
    }
    if samples.is_empty() {
        samples.push(serde_json::Value::String("(no sample rendered)".into()));
    }
    let evidence = serde_json::json!({
        "property_id": id,
        "tier": args.tier.name(),
        "seed": args.seed as i64,
        "level": "exploration",
        "coverage": {
            "evaluations": total.evaluations,
            "distinct_nontrivial": distinct.len(),
            "nontrivial_cases": total.nontrivial_cases,
            "rule": spec.rule,
            "samples": samples,
            "classes": total.classes,
            "counts": total.counts,
            "excluded": total.excluded,
            "known_finding_hits": total.known_hits,
            "regression_replays": regression,
            "workers": n,
            "exhaustive": false,
            "floors": spec.floors.iter().map(|(c, m)| serde_json::json!({"class": c, "min_fraction": m})).collect::<Vec<_>>(),
            "inconclusive": inconclusive,
        },
        "assumptions": spec.assumptions,
        "wall_s": wall,
        "violations": violations.len(),
    });
    let evdir = verif_dir().join("evidence");
    let _ = std::fs::create_dir_all(&evdir);
    std::fs::write(
        evdir.join(format!("{}.json", id)),
        serde_json::to_vec_pretty(&evidence).unwrap(),
    )
    .expect("write evidence");

    println!(
        "{} {} seed={} cases={} nontrivial={} distinct={} known_hits={} wall={:.1}s",
        id,
        args.tier.name(),
        args.seed,
        total.evaluations,
        total.nontrivial_cases,
        distinct.len(),
        total.known_hits.values().sum::<u64>(),
        wall
    );
    let _ = std::fs::remove_dir_all(&work);
    if !violations.is_empty() {
        let mut seen = BTreeSet::new();
        for (sig, path) in &violations {
            if seen.insert(sig.clone()) {
                println!("VIOLATION property={} replay={}", id, path.display());
            }
        }
        return ExitCode::from(1);
    }
    if !harness_errors.is_empty() || !floor_errors.is_empty() {
        for e in harness_errors.iter().chain(floor_errors.iter()) {
            println!("HARNESS-ERROR property={} {}", id, e);
        }
        return ExitCode::from(3);
    }
    if !inconclusive.is_empty() {
        for e in &inconclusive {
            println!("INCONCLUSIVE property={} {}", id, e);
        }
        return ExitCode::from(2);
    }
    ExitCode::SUCCESS
}

fn absorb(
    total: &mut Totals,
    distinct: &mut HashSet<u64>,
    t: Totals,
    id: &str,
    shard: usize,
    violations: &mut Vec<(String, PathBuf)>,
    harness_errors: &mut Vec<String>,
) {
    total.evaluations += t.evaluations;
    total.nontrivial_cases += t.nontrivial_cases;
    for (k, v) in t.classes {
        *total.classes.entry(k).or_insert(0) += v;
    }
    for (k, v) in t.counts {
        *total.counts.entry(k).or_insert(0) += v;
    }
    for (k, v) in t.excluded {
        *total.excluded.entry(k).or_insert(0) += v;
    }
    for (k, v) in t.known_hits {
        *total.known_hits.entry(k).or_insert(0) += v;
    }
    distinct.extend(t.nontrivial);
    for s in t.samples {
        if total.samples.len() < 8 {
            total.samples.push(s);
        }
    }
    for (k, v) in t.class_samples {
        total.class_samples.entry(k).or_insert(v);
    }
    if let Some(f) = t.failure {
        let path = write_replay(id, &f);
        println!(
            "violation sig={} :: {}",
            f.sig,
            f.msg.lines().next().unwrap_or("")
        );
        violations.push((f.sig, path));
    }
    if let Some(e) = t.harness_error {
        harness_errors.push(format!("shard {}: {}", shard, e));
    }
}
