//! Entropy tape: every generator in the harness is a plain function reading choices from a
//! `Tape`; the proptest strategy is just `vec(u32)` mapped through that function, so proptest
//! owns all randomness (seed, replay) and shrinks the tape (shorter / smaller numbers), which the
//! decoders map monotonically to simpler structures (0 is always the simplest choice).

use proptest::prelude::*;
use proptest::strategy::BoxedStrategy;

pub struct Tape<'a> {
    data: &'a [u32],
    pos: usize,
}

impl<'a> Tape<'a> {
    pub fn new(data: &'a [u32]) -> Tape<'a> {
        Tape { data, pos: 0 }
    }
    pub fn raw(&mut self) -> u32 {
        let v = self.data.get(self.pos).copied().unwrap_or(0);
        self.pos += 1;
        v
    }
    pub fn exhausted(&self) -> bool {
        self.pos >= self.data.len()
    }
    pub fn used(&self) -> usize {
        self.pos
    }
    /// uniform choice in 0..n, monotone in the raw value (0 -> 0)
    pub fn below(&mut self, n: usize) -> usize {
        if n <= 1 {
            self.raw();
            return 0;
        }
        ((self.raw() as u64 * n as u64) >> 32) as usize
    }
    /// inclusive range
    pub fn range(&mut self, lo: usize, hi: usize) -> usize {
        lo + self.below(hi - lo + 1)
    }
    /// true with probability num/den (false is the simple choice)
    pub fn chance(&mut self, num: u32, den: u32) -> bool {
        // monotone: small raw values give false
        let r = self.raw() as u64;
        r >= ((den - num) as u64 * (1u64 << 32)) / den as u64
    }
    pub fn u64(&mut self) -> u64 {
        ((self.raw() as u64) << 32) | self.raw() as u64
    }
    pub fn u128(&mut self) -> u128 {
        ((self.u64() as u128) << 64) | self.u64() as u128
    }
    pub fn pick<'b, T>(&mut self, xs: &'b [T]) -> &'b T {
        &xs[self.below(xs.len())]
    }
    /// weighted choice: returns the index; index 0 is the simple choice
    pub fn weighted(&mut self, weights: &[u32]) -> usize {
        let total: u64 = weights.iter().map(|w| *w as u64).sum();
        let mut x = (self.raw() as u64 * total) >> 32;
        for (i, w) in weights.iter().enumerate() {
            if x < *w as u64 {
                return i;
            }
            x -= *w as u64;
        }
        weights.len() - 1
    }
    /// a value of `bits` bits with boundary bias (0, 1, all-ones, sign boundaries, small, random)
    pub fn biased(&mut self, bits: usize) -> u128 {
        let mask: u128 = if bits >= 128 { u128::MAX } else { (1u128 << bits) - 1 };
        let top: u128 = 1u128 << (bits.min(128) - 1);
        let v = match self.below(12) {
            0 => 0,
            1 => 1,
            2 => mask,
            3 => top,
            4 => top.wrapping_sub(1),
            5 => top.wrapping_add(1),
            6 => self.below(17) as u128,
            7 => mask.wrapping_sub(self.below(17) as u128),
            8 => (self.raw() as u128) & 0xff,
            9 => {
                // one-hot / boundary of a sub-width
                let b = self.below(bits.min(128));
                (1u128 << b).wrapping_sub(self.below(2) as u128)
            }
            _ => self.u128(),
        };
        v & mask
    }
}

/// A tape strategy of up to `len` entries.
pub fn tape(len: usize) -> BoxedStrategy<Vec<u32>> {
    proptest::collection::vec(any::<u32>(), len..=len).boxed()
}

/// Build a strategy from a decoder.
pub fn from_tape<T, F>(len: usize, f: F) -> BoxedStrategy<T>
where
    T: std::fmt::Debug + 'static,
    F: Fn(&mut Tape) -> T + 'static,
{
    tape(len)
        .prop_map(move |v| {
            let mut t = Tape::new(&v);
            f(&mut t)
        })
        .boxed()
}

/// libFuzzer inputs: the bytes are the entropy tape (little-endian u32 words, at most `max`).
pub fn words_from_bytes(data: &[u8], max: usize) -> Vec<u32> {
    let mut tape: Vec<u32> = data
        .chunks(4)
        .map(|c| {
            let mut b = [0u8; 4];
            b[..c.len()].copy_from_slice(c);
            u32::from_le_bytes(b)
        })
        .collect();
    tape.truncate(max);
    tape
}
